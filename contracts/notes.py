"""Per-property assumptions / not-covered notes copied into the evidence files (see DESIGN.md sections 5, 7, 9)."""

S = {
    'S1': "S1 (SimPy): a process runs without interleaving between two of its yields",
    'S2': "S2 (SimPy): yield env.timeout(d) resumes the process at now + d",
    'S3': "S3 (SimPy): a process spawned by env.process starts at the current time before any process resumed by a timeout",
    'S4': "S4 (SimPy): proc.triggered <=> the generator has returned; False right after env.process",
    'S5': "S5 (SimPy): an exception leaving a segment aborts env.run",
    'S6': "S6 (SimPy): run(until=a); run(until=b) executes the same events as run(until=b)",
    'S7': "S7 (SimPy): events with equal time and priority run in creation order",
}
ENV_RUN = "env.run is modelled as an arbitrary finite sequence of process segments, each preserving the proved class / heap invariants (the segment rule); it is not itself verified"
MACHINE_RUN = "Machine.run / run_task / stop_task are verified bodies (no longer assumed): Task.io is a union-typed heap field (dict | number | None); on the dict reading the encoding keeps the earlier approximation (a number stored there reads as an empty dict), only arithmetic on it is checked (TypeError obligation unless it holds a number)"
ALG = "user scheduling algorithms are an abstract callee: may call the public Cluster API, returns an arbitrary task->machine mapping (Scheduling.run assumed contract); they do not write private fields of the actors or spawn processes; the four shipped algorithms are VERIFIED to refine that contract (refines-Scheduling.run:* obligations: abstract post-condition, frame within the abstract frame) - for them it is assumed only that their own preconditions hold and that they do not raise"
NX = "networkx (assumed): predecessors / successors / pred / nodes as an edge relation; topological_sort lists every node once with every edge forward; relabel_nodes is the image graph"
NP = "numpy.random (assumed): default_rng(seed) is a pure function of seed, default_rng() is not; normal/poisson return arrays of the requested length (all equal to the mean when the spread is 0); a[a > x] keeps exactly the elements > x"
PD = "pandas (assumed): DataFrame(list of dicts) has one row per element; DataFrame(dict of dicts) has one column per key; .T swaps rows and columns; len(frame) is its row count; frame[col] = list needs one value per row and keeps the rows; infer_objects keeps rows and columns; concat adds row counts; the outer join of one-row frames has one row"
STATIC = "static (SHADOW) planning cannot be imported here; plan-following and greedy algorithms are verified against hand-stated plan preconditions"

PROPERTY_NOTES = {
    'C01': dict(assumptions=[S['S1'], S['S3'], S['S4'], MACHINE_RUN, ALG,
                             "stability of 'a suspended allocation keeps its task running and its machine held' is a discharged obligation family (stable:...) for every function / segment of the property except constructors, functions that run the event loop themselves and the private pool helpers (which break and restore the invariant in pairs)"],
                not_covered=[]),
    'C02': dict(assumptions=[S['S1'], S['S3'], MACHINE_RUN, "list order is abstracted to multisets (positions only where a loop indexes a list)"],
                not_covered=["'no reservation outstanding when a simulation ends' (needs a link between reservations and queued observations)"]),
    'C03': dict(assumptions=[NX, S['S2'], "every in-tree algorithm iterates its own loops atomically (S1)"],
                not_covered=["for GreedySchedulingFromPlan the precedence clause is in terms of task ids (unique ids assumed)",
                             "the same-machine clause 'start >= recorded finish of the predecessor' (needs intra-step order, S7)"]),
    'C04': dict(assumptions=[ENV_RUN, ALG, MACHINE_RUN, S['S1'], S['S3'], PD, "task ids are unique (C14) - assumed precondition of the task-table functions"],
                not_covered=["termination (C05)"]),
    'C06': dict(assumptions=[S['S2'], "float arithmetic exact", "the delay model's caller-side contract (result >= runtime) is proved under C15"],
                not_covered=["monotonicity is the monotonicity of max(1, max(floor(w/s), floor(d/b))), stated in DESIGN.md and not a separate obligation"]),
    'C07': dict(assumptions=[S['S1'], S['S2'], "observation durations and (rounded) data rates are whole numbers (entity typing invariant, checked at every write)"],
                not_covered=["'free space never drops below zero' is not a discharged obligation: it needs a sum over the set of running ingest streams; the code keeps no reserve for concurrently admitted observations (F7: recorded as a known finding of the bounded monitor, scenario tight-hot-overlap); only the per-observation admission check is proved"]),
    'C08': dict(assumptions=[S['S1'], S['S3'], "telescope_use >= 0 (needs the sum of demands of running observations)",
                             "'completely idle' includes: no admitted ingest in progress (ghost admitted_ingest = 0; the ghost grows where an admission is granted and shrinks where allocate_ingest returns, and the Scheduler invariant ties provision_ingest to it)"],
                not_covered=["interference between observations admitted in the same timestep is not modelled by the contracts (processes spawned in one step see each other's effects only through the promise counter); the real code does fail there (F9: recorded as a known finding of the bounded monitor, scenario same-start-short-of-machines)"]),
    'C09': dict(assumptions=[S['S1'], NX, "the per-observation split given to BatchProcessing has whole numbers and min <= max (assumed precondition)"],
                not_covered=["per-observation min/max from the configuration file never reach the algorithm (DESIGN F10)"]),
    'C10': dict(assumptions=[S['S7'], NP, "sorted() with a key that contains the object's id/name is injective on tasks (ids unique, C14)",
                             "the lemma 'deterministic segments + deterministic SimPy event order => equal tables' is a meta-step"],
                not_covered=["relational (two-run) obligations are replaced by the absence of hash-ordered iteration, unseeded generators and wall-clock flows outside the *-algtime columns"]),
    'C11': dict(assumptions=[S['S6'], ENV_RUN], not_covered=["equality of the trajectories themselves (reduced to S6)"]),
    'C12': dict(assumptions=[PD, S['S7'], S['S3']], not_covered=["'state at the beginning of step t' (monitor-first order)"]),
    'C13': dict(assumptions=[S['S1'], S['S3'], PD], not_covered=["causal order across processes is by the spawn relation (not a discharged obligation)"]),
    'C14': dict(assumptions=[NX, "str() is injective on node identifiers and s + t determines t for a fixed prefix (assumed string axioms)",
                             "_workflow_to_nx (file I/O) returns the graph described by the file"],
                not_covered=["static (SHADOW) planning"]),
    'C15': dict(assumptions=[NP, "runtimes are whole numbers of timesteps, probabilities lie in [0, 1]"],
                not_covered=["'never fails' for dist='uniform' (recorded known finding)"]),
    'C16': dict(assumptions=["Config.__init__ (file I/O) is trusted; configured values are whole multiples of the unit; float arithmetic exact"], not_covered=[]),
    'C17': dict(assumptions=[STATIC, "allocated_machine_id names a registered machine"], not_covered=[]),
    'C18': dict(assumptions=["no second tier move is in progress on entry (transfer slots empty); summing per-step deltas over one move is a meta-step"],
                not_covered=["zero-size observations (two recorded known findings)"]),
    'C19': dict(assumptions=["under the class invariants of the four actors"], not_covered=[]),
}
