"""Per-property assumptions / not-covered notes copied into the evidence files."""
PROPERTY_NOTES = {}
