"""The object graph of a simulation (what Simulation.__init__ wires), built by executing the real constructors
symbolically and then havocking every leaf; sharing between actors is the sharing the constructors create."""
import z3
from pyvc.state import ObjV, Record, Sym, fresh_name
from .base import *

REG.ctor_params['Planner'] = {'env': 'env', 'cluster': 'obj:Cluster', 'model': 'obj:Planning', 'delay_model': 'DelayModel'}
REG.ctor_params['Buffer'] = {'env': 'env', 'cluster': 'obj:Cluster', 'planner': 'obj:Planner', 'config': 'obj:Config'}
REG.ctor_params['Scheduler'] = {'env': 'env', 'buffer': 'obj:Buffer', 'cluster': 'obj:Cluster', 'algorithm': 'obj:Scheduling'}
REG.ctor_params['Telescope'] = {'env': 'env', 'config': 'obj:Config', 'planner': 'obj:Planner', 'scheduler': 'obj:Scheduler'}
REG.abstract.update({'Planning', 'Scheduling'})
REG.builders['Planning'] = lambda eng: ObjV('Planning', {'algorithm': eng.fresh_of_type('str', 'planning.algorithm')}, 'planning-model')
REG.builders['Scheduling'] = lambda eng: ObjV('Scheduling', {}, 'user-algorithm')
REG.const_fields.update({'Buffer.threshold', 'Buffer.hot_count', 'Buffer.cold_count'})
REG.field_types.update({
    'Buffer.waiting_observation_list': 'list:Observation', 'Buffer.events': 'list:event', 'Buffer.stored_times': 'list:num',
    'Scheduler.observation_queue': 'list:Observation', 'Scheduler.events': 'list:event',
    'Scheduler.algtime': 'dict:str->num', 'Scheduler.ingest_observation': 'ref:Observation',
    'Telescope.observations': 'list:Observation', 'Telescope.events': 'list:event',
    'Telescope.pipelines': 'dict:str->ref:PipelineSpec',
    'Cluster.events': 'list:event',
})


def world(eng, upto='telescope'):
    cluster = eng.construct('Cluster')
    planner = eng.construct('Planner', args={'cluster': cluster})
    out = {'cluster': cluster, 'planner': planner}
    if upto == 'planner':
        return out
    buffer = eng.construct('Buffer', args={'cluster': cluster, 'planner': planner})
    out['buffer'] = buffer
    if upto == 'buffer':
        return out
    scheduler = eng.construct('Scheduler', args={'buffer': buffer, 'cluster': cluster})
    out['scheduler'] = scheduler
    if upto == 'scheduler':
        return out
    telescope = eng.construct('Telescope', args={'planner': planner, 'scheduler': scheduler})
    out['telescope'] = telescope
    return out


def world_of(which, upto=None):
    def w(eng):
        d = world(eng, upto or which)
        r = dict(d)
        r['self'] = d[which]
        return r
    return w


EVENT = z3.Function('mk_event', R, I, I, I, I, I)     # (time, actor, observation name, event, resource) -> event code


def event_code(time, actor, obsname, event, resource):
    return EVENT(time, z3.IntVal(STRINGS.intern(actor)), obsname, z3.IntVal(STRINGS.intern(event)), z3.IntVal(STRINGS.intern(resource)))


REG.field_types.update({'Monitor.df': 'any', 'Monitor.events': 'any', 'Planner.delay_model': 'DelayModel'})
REG.ctor_params['Monitor'] = {'simulation': 'obj:Simulation', 'start_time': 'any'}


def sim_world(eng):
    """the Simulation object as Simulation.__init__ wires it (its file / HDF5 handling is not modelled)"""
    from pyvc.state import Opaque
    from pyvc.interp import ENV
    d = world(eng)
    sim = ObjV('Simulation', {'env': ENV, 'cluster': d['cluster'], 'planner': d['planner'], 'buffer': d['buffer'],
                              'scheduler': d['scheduler'], 'instrument': d['telescope'],
                              'running': eng.fresh_of_type('bool', 'sim.running'), 'to_file': False, '_hdf5_store': None,
                              '_cfg_path': Opaque('path'), '_cfg': Opaque('config')}, 'simulation')
    # the monitor: its real __init__ executed symbolically (so a field a changed constructor adds exists here too), then havocked
    mon = eng.construct('Monitor', args={'simulation': sim, 'start_time': Opaque('timestamp')}, label='monitor')
    mon.fields['df'] = eng.fresh_of_type('any', 'monitor.df')            # data frames: opaque ids with a row count (assumed pandas)
    mon.fields['events'] = eng.fresh_of_type('any', 'monitor.events')
    sim.fields['monitor'] = mon
    d['simulation'] = sim
    d['monitor'] = mon
    return d


def sim_world_of(which):
    def w(eng):
        d = sim_world(eng)
        r = dict(d)
        r['self'] = d[which]
        return r
    return w
