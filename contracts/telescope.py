"""Contracts for topsim/user/telescope.py and topsim/core/instrument.py (C08, C13, C19, C12)."""
import z3
from .base import *
from .world import world_of, EVENT
from .buffer import _add_event_ens, obs_ok, _add_event_ghost, events_inv, unlogged
from .cluster import CV
from .buffer import hot, cold


def admitted(sv):
    from .scheduler import admitted as a
    return a(sv)

TW = world_of('telescope')
RS = lambda m: enum_code('RunStatus', m)

# ---- Observation predicates -------------------------------------------------------------------------------------------------
REG.contract('Observation.is_ready', params={'current_time': 'num', 'capacity': 'num'},
             ensures=lambda c: [('C08-ready-iff-due-fits-and-waiting', c.result.t == z3.And(
                 c.o.self.est.t <= c.o.current_time.t, c.o.self.demand.t <= c.o.capacity.t, c.o.self.status.t == RS('WAITING')))],
             result='bool', props=['C08'])
REG.contract('Observation.is_finished', params={'current_time': 'num', 'telescope_status': 'bool'},
             ensures=lambda c: [('C13-finished-exactly-one-duration-after-the-actual-start', c.result.t == z3.And(
                 z3.Not(c.o.self.isnone('ast')), c.o.current_time.t >= c.o.self.ast.t + c.o.self.duration.t,
                 c.o.telescope_status.t, c.o.self.status.t != RS('FINISHED')))],
             result='bool', props=['C13', 'C08', 'C04', 'C07'])


# ---- Telescope -------------------------------------------------------------------------------------------------------------
def telescope_inv(v, sv):
    H = lambda f, o: z3.Select(sv.heap('Observation', f), o)
    return [('every-observation-has-a-pipeline', Q([('o', I)], lambda o: z3.Implies(v.observations.count(o) > 0, z3.And(
        z3.Select(v.pipelines.keys, H('name', o)), z3.Select(v.pipelines.vals, H('name', o)) > 0, H('demand', o) >= 0)))),
            ('C08-array-use-within-the-telescope-total', v.telescope_use.t <= v.total_arrays.t),
            ('observations-are-objects', Q([('o', I)], lambda o: z3.Implies(v.observations.count(o) > 0, o > 0)))] + events_inv('instrument')(v, sv)


REG.invariants['Telescope'] = telescope_inv
REG.zero_at_init['Telescope'] = [('unlogged_instrument', 'int')]


def _tel_init_req(c):
    from . import config as _config
    cc = Ctx(c.eng, SV(c.eng, c.o.config._s, {'self': c.o.config._v}), None)
    r = [x for x in REG.contracts['Config.parse_instrument_config'].requires(cc)]
    return r + [('assume:configured-array-total-nonnegative', c.o.config.instrument['telescope']['total_arrays'].t >= 0)]


# Telescope.__init__ establishes the telescope invariant from a well-formed configuration
REG.contract('Telescope.__init__', params={'env': 'env', 'config': 'obj:Config', 'planner': 'any', 'scheduler': 'any'},
             requires=_tel_init_req,
             world=lambda eng: {'self': __import__('pyvc.state', fromlist=['ObjV']).ObjV('Telescope', {}, 'Telescope')},
             ensures=lambda c: [('C08-no-arrays-in-use', z3.And(c.n.self.telescope_use.t == 0, z3.Not(c.n.self.telescope_status.t))),
                                ('C13-no-events', c.n.self.events.n == 0),
                                ('one-observation-per-configured-entry', c.n.self.observations.n == c.o.config.instrument['telescope']['observations'].n)],
             raises={'KeyError': dict(when=None, unchanged=False)},
             invariants='post', modifies=['*'], props=['C08', 'C13', 'C19'])

REG.contract('Telescope._add_event', world=TW, params={'observation': 'Observation', 'resource': 'str', 'event': 'str'},
             ensures=_add_event_ens('instrument'), ghost=_add_event_ghost('instrument'), modifies=['self.events', 'ghost:unlogged_instrument'],
             props=['C13'])
REG.contract('Telescope.begin_observation', world=TW, params={'observation': 'Observation'},
             requires=lambda c: [('C08-fits-the-free-arrays', c.o.observation.demand.t <= c.o.self.total_arrays.t - c.o.self.telescope_use.t),
                                 ('demand-nonneg', c.o.observation.demand.t >= 0)],
             ensures=lambda c: [('C08-arrays-taken', c.n.self.telescope_use.t == c.o.self.telescope_use.t + c.o.observation.demand.t),
                                ('C08-use-stays-within-total', c.n.self.telescope_use.t <= c.o.self.total_arrays.t),
                                ('in-use', c.n.self.telescope_status.t), ('returns-running', c.result.val == EnumConst('RunStatus', 'RUNNING'))],
             modifies=['self.telescope_use', 'self.telescope_status'], props=['C08', 'C19'])
REG.contract('Telescope.finish_observation', world=TW, params={'observation': 'Observation'},
             requires=lambda c: [('demand-nonneg', c.o.observation.demand.t >= 0)],
             ensures=lambda c: [('C08-arrays-released', c.n.self.telescope_use.t == c.o.self.telescope_use.t - c.o.observation.demand.t),
                                ('status-off-exactly-when-no-arrays-in-use', c.n.self.telescope_status.t == z3.If(
                                    c.n.self.telescope_use.t == 0, False, c.o.self.telescope_status.t)),
                                ('returns-finished', c.result.val == EnumConst('RunStatus', 'FINISHED'))],
             modifies=['self.telescope_use', 'self.telescope_status'], props=['C08', 'C04', 'C19', 'C13'])


def _all_finished(c, sv, tel):
    st = sv.heap('Observation', 'status')
    return Q([('o', I)], lambda o: z3.Implies(tel.observations.count(o) > 0, z3.Select(st, o) == RS('FINISHED')))


def _tidle_ens(c):
    s = c.o.self
    st = c.o.heap('Observation', 'status')
    allfin = z3.ForAll([z3.Int('oq')], z3.Implies(s.observations.count(z3.Int('oq')) > 0, z3.Select(st, z3.Int('oq')) == RS('FINISHED')))
    return [('C19-idle-iff-every-observation-finished-and-no-arrays-in-use', c.result.t == z3.And(
        allfin, z3.Not(s.telescope_status.t), s.telescope_use.t == 0))]


REG.contract('Telescope.is_idle', world=TW, ensures=_tidle_ens, result='bool', props=['C19', 'C04'])
REG.loop('Telescope.is_idle', 0, inv=lambda c: [('visited-observations-are-finished', Q([('o', I)], lambda o: z3.Implies(
    z3.Select(c.x['visited'].cnt, o) > 0, z3.Select(c.n.heap('Observation', 'status'), o) == RS('FINISHED'))))],
    modifies_locals=['observation'], props=['C19'])


def _hotp_ens(c):
    s = c.o.self
    st = c.o.heap('Observation', 'status')
    allfin = z3.ForAll([z3.Int('oq')], z3.Implies(s.observations.count(z3.Int('oq')) > 0, z3.Select(st, z3.Int('oq')) == RS('FINISHED')))
    return [('true-iff-some-observation-is-not-finished', c.result.t == z3.Not(allfin))]


REG.contract('Telescope.has_observations_to_process', world=TW, ensures=_hotp_ens, result='bool', props=['C04', 'C08'])
REG.loop('Telescope.has_observations_to_process', 0, inv=lambda c: [('visited-observations-are-finished', Q([('o', I)], lambda o: z3.Implies(
    z3.Select(c.x['visited'].cnt, o) > 0, z3.Select(c.n.heap('Observation', 'status'), o) == RS('FINISHED'))))],
    modifies_locals=['observation'], props=['C04'])


# ---- Telescope.run: admission (C08) -----------------------------------------------------------------------------------------
def _trun_inv(c):
    n = c.n
    s = n.self
    return [('C08-array-use-within-the-telescope-total', s.telescope_use.t <= s.total_arrays.t),
            ('observations-are-objects', Q([('o', I)], lambda o: z3.Implies(s.observations.count(o) > 0, o > 0))),
            ('observation-list-unchanged', z3.And(s.observations.cnt == c.x['pre'].self.observations.cnt)),
            ('C13-every-unlogged-record-is-still-in-the-list', z3.And(unlogged(n, 'instrument') >= 0, unlogged(n, 'instrument') <= s.events.n)),
            ('C08-promise-counter-is-the-demand-of-the-admitted-ingests-in-progress', s.scheduler.provision_ingest.t == admitted(n))]


def _trun_body(c):
    n, s0 = c.n, c.x['iter_start']
    ob = n['observation']
    sp = [g for g, p, nd in c.x['spawns'] if g.qual == 'Scheduler.allocate_ingest']
    t0, t1 = s0.self, n.self
    sched0 = t0.scheduler
    st0 = z3.Select(s0.heap('Observation', 'status'), ob.t)
    st1 = z3.Select(n.heap('Observation', 'status'), ob.t)
    if len(sp) > 1:
        return [('C08-at-most-one-start-per-observation-and-step', z3.BoolVal(False))]
    if len(sp) == 1:
        H = lambda f: z3.Select(s0.heap('Observation', f), ob.t)
        spec = z3.Select(t0.pipelines.vals, H('name'))
        d = z3.Select(s0.heap('PipelineSpec', 'ingest_demand'), spec)
        size = H('ingest_data_rate') * H('duration')
        k = CV(sched0.cluster)
        buf = sched0.buffer
        from .buffer import slot, size_of
        tr = slot(cold(buf))
        cold_pending = z3.If(tr != 0, size_of(s0, tr), 0)
        code = EVENT(s0.now, z3.IntVal(STRINGS.intern('instrument')), H('name'), z3.IntVal(STRINGS.intern('started')),
                     z3.IntVal(STRINGS.intern('telescope')))
        return [('C08-starts-only-at-or-after-its-planned-start', H('est') <= s0.now),
                ('C08-starts-only-once-it-is-waiting', st0 == RS('WAITING')),
                ('C08-starts-only-if-the-telescope-has-enough-free-arrays', H('demand') <= t0.total_arrays.t - t0.telescope_use.t),
                ('C08-starts-only-if-the-cluster-has-enough-available-machines-within-the-ingest-limit', z3.And(
                    z3.ToReal(k.av.n) >= d, z3.ToReal(k.ing.n) + d <= t0.max_ingest.t, sched0.provision_ingest.t + d <= t0.max_ingest.t)),
                ('C08-starts-only-if-both-buffers-have-room-for-the-whole-volume', z3.And(
                    hot(buf).current_capacity.t - size >= 0, cold(buf).current_capacity.t - (size + cold_pending) >= 0)),
                ('C08-arrays-taken', t1.telescope_use.t == t0.telescope_use.t + H('demand')),
                ('C13-started-event-at-the-start-time', z3.Select(t1.events.cnt, code) == z3.Select(t0.events.cnt, code) + 1),
                ('C13-actual-start-recorded', z3.And(z3.Select(n.heap('Observation', 'ast'), ob.t) == s0.now,
                                                     z3.Not(z3.Select(n.heap('Observation', 'ast.none', B), ob.t)))),
                ('spawn-is-for-this-observation', sp[0].args['observation'].t == ob.t),
                ('C08-admitted-demand-grows-by-this-pipeline-demand', admitted(n) == admitted(s0) + d)]
    # no start in this iteration: either it finished now, or nothing changed for it
    H0 = lambda f: z3.Select(s0.heap('Observation', f), ob.t)
    fin_now = z3.And(st1 == RS('FINISHED'), st0 != RS('FINISHED'))
    code = EVENT(s0.now, z3.IntVal(STRINGS.intern('instrument')), H0('name'), z3.IntVal(STRINGS.intern('finished')),
                 z3.IntVal(STRINGS.intern('telescope')))
    # "an observation that falls due while the system is completely idle starts exactly on time" (no start happened in this iteration)
    spec = z3.Select(t0.pipelines.vals, H0('name'))
    d = z3.Select(s0.heap('PipelineSpec', 'ingest_demand'), spec)
    size = H0('ingest_data_rate') * H0('duration')
    k = CV(sched0.cluster)
    buf = sched0.buffer
    from .buffer import slot
    idle = z3.And(t0.telescope_use.t == 0, k.av.n == k.M.n, k.ing.n == 0, admitted(s0) == 0,
                  hot(buf).current_capacity.t == hot(buf).total_capacity.t, cold(buf).current_capacity.t == cold(buf).total_capacity.t,
                  slot(cold(buf)) == 0)
    feasible = z3.And(H0('demand') <= t0.total_arrays.t, d <= z3.ToReal(k.M.n), d <= t0.max_ingest.t, H0('duration') >= 1,
                      size < hot(buf).total_capacity.t, size <= cold(buf).total_capacity.t)
    return [('C08-due-while-completely-idle-starts-on-time', z3.Not(z3.And(st0 == RS('WAITING'), H0('est') <= s0.now, idle, feasible))),
            ('C08-no-admission-without-a-start', admitted(n) == admitted(s0)),
            ('C13-actual-start-recorded-only-at-a-start', z3.And(
                z3.Select(n.heap('Observation', 'ast'), ob.t) == z3.Select(s0.heap('Observation', 'ast'), ob.t),
                z3.Select(n.heap('Observation', 'ast.none', B), ob.t) == z3.Select(s0.heap('Observation', 'ast.none', B), ob.t))),
            ('C08-status-changes-only-to-finished', z3.Or(st1 == st0, fin_now)),
            ('C13-finished-exactly-when-one-duration-has-elapsed-since-the-actual-start', z3.Implies(fin_now, z3.And(
                z3.Not(z3.Select(s0.heap('Observation', 'ast.none', B), ob.t)), s0.now >= H0('ast') + H0('duration'),
                z3.Select(t1.events.cnt, code) == z3.Select(t0.events.cnt, code) + 1,
                t1.telescope_use.t == t0.telescope_use.t - H0('demand')))),
            ('arrays-untouched-otherwise', z3.Implies(z3.Not(fin_now), t1.telescope_use.t == t0.telescope_use.t))]


def _trun_req(c):
    s = c.o.self
    return [('pipelines-known', Q([('o', I)], lambda o: z3.Implies(s.observations.count(o) > 0, z3.And(
        z3.Select(s.pipelines.keys, z3.Select(c.o.heap('Observation', 'name'), o)),
        z3.Select(s.pipelines.vals, z3.Select(c.o.heap('Observation', 'name'), o)) > 0)))),
            ('demands-nonneg', Q([('o', I)], lambda o: z3.Implies(s.observations.count(o) > 0, z3.Select(c.o.heap('Observation', 'demand'), o) >= 0))),
]


REG.contract('Telescope.run', world=TW, locals_types={},
             requires=_trun_req,
             yields={0: lambda c: _trun_req(Ctx(c.eng, c.n, c.n)) + [('one-step-wait', c.n['_ydelay'].t == 1)]},
             raises={'RuntimeError': dict(when=None, unchanged=False)},
             modifies=['self.events', 'ghost:unlogged_instrument', 'self.delayed', 'self.telescope_use', 'self.telescope_status', 'self.scheduler.provision_ingest',
                       'ghost:admitted_ingest', 'heap:Observation.ast', 'heap:Observation.status'],
             props=['C08', 'C13', 'C04', 'C07'])
REG.loop('Telescope.run', 1, inv=_trun_inv, body=_trun_body,
         modifies_locals=['observation', 'capacity', 'ret', 'process'],
         modifies=['self.events', 'ghost:unlogged_instrument', 'self.telescope_use', 'self.telescope_status', 'self.scheduler.provision_ingest',
                   'ghost:admitted_ingest', 'heap:Observation.ast', 'heap:Observation.status'],
         props=['C08', 'C13'])


# ---- counts reported to the monitor (C12) ------------------------------------------------------------------------------------
def _count_status(c, sv, tel, member):
    st = sv.heap('Observation', 'status')
    return c.eng.count_where(tel.observations.val, lambda x: z3.Select(st, x) == RS(member))


REG.contract('Telescope.observations_waiting', world=TW,
             ensures=lambda c: [('C12-number-of-waiting-observations', c.result.t == z3.ToReal(_count_status(c, c.o, c.o.self, 'WAITING')))],
             result='num', props=['C12'])
REG.contract('Telescope.observations_finished', world=TW,
             ensures=lambda c: [('C12-number-of-finished-observations', c.result.t == z3.ToReal(_count_status(c, c.o, c.o.self, 'FINISHED')))],
             result='num', props=['C12'])
REG.contract('Telescope._calc_observation_delay', world=TW, ensures=lambda c: [], result='num', props=['C12'])
REG.loop('Telescope._calc_observation_delay', 0, inv=lambda c: [], modifies_locals=['observation', 'cum_delay'], props=['C12'])


def _tel_to_df(c):
    r = c.result
    return [('C12-waiting-observations', r['observations_waiting'].t == z3.ToReal(_count_status(c, c.o, c.o.self, 'WAITING'))),
            ('C12-finished-observations', r['observations_finished'].t == z3.ToReal(_count_status(c, c.o, c.o.self, 'FINISHED')))]


REG.contract('Telescope.to_df', world=TW, ensures=_tel_to_df, props=['C12'],
             result='frame:observations_waiting=num;observations_finished=num;observations_delayed=num')
