"""Contracts for topsim/core/delay.py (C15, C10)."""
import z3
from .base import *
from . import deps

DD = lambda m: enum_code('DelayDegree', m)


def degree_value(t):
    """DelayDegree.value as a number"""
    v = z3.RealVal(0)
    for m, val in ENUMS.enums['DelayDegree'].items():
        v = z3.If(t == ENUMS.code('DelayDegree', m), z3.RealVal(repr(val)), v)
    return v


def no_nondeterminism(c):
    """C10/C15 'identical for identical seed and arguments': the result term is built from the seed and the arguments only -
    no value that is not a function of program state (unseeded generator, wall clock) was drawn on this path"""
    nd = c.eng.st.ghost.get('_nondet', [])
    return z3.BoolVal(len(nd) == 0)


def _gd_req(c):
    return [('runtime-nonnegative', c.o.task_runtime.t >= 0),
            ('assume:runtime-is-a-whole-number-of-timesteps', z3.IsInt(c.o.task_runtime.t)),
            ('sample-size-positive', c.o.n.t >= 1),
            ('assume:probability-in-range', z3.And(c.o.self.prob.t >= 0, c.o.self.prob.t <= 1))]


def _gd_ens(c):
    s, rt_ = c.o.self, c.o.task_runtime.t
    res = c.result.t
    return [('C15-never-shortens', res >= rt_),
            ('C15-no-delay-when-degree-is-none', z3.Implies(s.degree.t == DD('NONE'), res == rt_)),
            ('C15-no-delay-when-probability-is-zero', z3.Implies(s.prob.t == 0, res == rt_)),
            ('C15-no-delay-when-runtime-is-zero', z3.Implies(rt_ == 0, res == 0)),
            ('C15-C10-deterministic-in-seed-and-arguments', no_nondeterminism(c))]


REG.contract('DelayModel.generate_delay', params={'task_runtime': 'int', 'n': 'int'},
             requires=_gd_req, ensures=_gd_ens, result='num', props=['C15', 'C10'])


def _crv_ens(c):
    rt_ = c.o.runtime.t
    return [('C15-sample-not-below-the-runtime', c.result.t >= rt_),
            ('C15-zero-runtime-gives-zero', z3.Implies(rt_ == 0, c.result.t == 0)),
            ('C15-C10-deterministic-in-seed-and-arguments', no_nondeterminism(c))]


REG.contract('DelayModel._create_random_value_from_runtime', params={'runtime': 'int', 'n': 'int'},
             requires=lambda c: [('runtime-is-a-nonnegative-whole-number', z3.And(c.o.runtime.t >= 0, z3.IsInt(c.o.runtime.t))),
                                 ('sample-size-positive', c.o.n.t >= 1),
                                 ('degree-is-not-none', c.o.self.degree.t != DD('NONE'))],
             ensures=_crv_ens, result='num', props=['C15', 'C10'])
