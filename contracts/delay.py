"""Contracts for topsim/core/delay.py (C15)."""
import z3
from .base import *

# caller-side contract of generate_delay; the body is checked against it below where the encoding reaches it
REG.contract('DelayModel.generate_delay',
    params={'task_runtime': 'num', 'n': 'num'},
    requires=lambda c: [('runtime-nonneg', c.o.task_runtime.t >= 0)],
    ensures=lambda c: [('C15-only-lengthens', c.result.t >= c.o.task_runtime.t)],
    result='num', props=['C15'])
