"""Contracts for topsim/core/simulation.py and topsim/core/monitor.py (C11, C12, C13, C19, C04)."""
import z3
from .base import *
from .world import sim_world_of, EVENT
from .deps import DF_ROWS
from .cluster import CV
from .buffer import hot, cold, unlogged
from .telescope import RS

MW = sim_world_of('monitor')
SIMW = sim_world_of('simulation')


def _ce_ens(c):
    o, n = c.o.self, c.n.self
    so, sn = o.simulation, n.simulation
    logged = DF_ROWS(n.events.t) - DF_ROWS(o.events.t)
    return [('C13-everything-listed-is-logged-once', logged == so.instrument.events.n + so.scheduler.events.n + so.buffer.events.n),
            ('C13-C11-what-was-logged-is-drained', z3.And(sn.instrument.events.n == 0, sn.scheduler.events.n == 0, sn.buffer.events.n == 0)),
            ('C13-nothing-left-unlogged', z3.And(unlogged(c.n, 'instrument') == 0, unlogged(c.n, 'scheduler') == 0, unlogged(c.n, 'buffer') == 0))]


def _ce_ghost(eng, vals):
    for a in ('instrument', 'scheduler', 'buffer'):
        eng.st.ghost['unlogged_' + a] = z3.IntVal(0)


REG.contract('Monitor.collate_events', world=MW, ensures=_ce_ens, ghost=_ce_ghost,
             modifies=['self.events', 'self.simulation.instrument.events', 'self.simulation.scheduler.events', 'self.simulation.buffer.events',
                       'ghost:unlogged_instrument', 'ghost:unlogged_scheduler', 'ghost:unlogged_buffer'],
             props=['C13', 'C11'])

REG.contract('Monitor.collate_actor_dataframes', world=MW,
             ensures=lambda c: [('C12-one-row', DF_ROWS(c.result.t) == 1)], result='any', props=['C12'],
             note="the four actor snapshots it joins are Cluster.to_df, Buffer.to_df, Telescope.to_df, Scheduler.to_df (exact contracts)")


def _mrun_step(c):
    o, n = c.o.self, c.n.self
    sn = n.simulation
    return [('C12-exactly-one-row-per-timestep', DF_ROWS(n.df.t) == DF_ROWS(o.df.t) + 1),
            # the log is in time order (C13) and independent of where a run is paused (C11: start(k) collates once more when it
            # returns) only if the records of a timestep are collated in that timestep
            ('C13-C11-the-records-of-a-timestep-are-collated-in-that-timestep', z3.And(
                unlogged(c.n, 'instrument') == 0, unlogged(c.n, 'scheduler') == 0, unlogged(c.n, 'buffer') == 0,
                sn.instrument.events.n == 0, sn.scheduler.events.n == 0, sn.buffer.events.n == 0))]


REG.contract('Monitor.run', world=MW, yields={0: lambda c: [('C12-one-step-wait', c.n['_ydelay'].t == 1)]}, step=_mrun_step,
             modifies=['self.df', 'self.events', 'self.simulation.instrument.events', 'self.simulation.scheduler.events',
                       'self.simulation.buffer.events', 'ghost:unlogged_instrument', 'ghost:unlogged_scheduler', 'ghost:unlogged_buffer'],
             props=['C12', 'C13', 'C11'])


# ---- Simulation ----------------------------------------------------------------------------------------------------------------
def _isfin_ens(c):
    s = c.o.self
    k = CV(s.cluster)
    st = c.o.heap('Observation', 'status')
    tel = s.instrument
    allfin = z3.ForAll([z3.Int('oq')], z3.Implies(tel.observations.count(z3.Int('oq')) > 0, z3.Select(st, z3.Int('oq')) == RS('FINISHED')))
    return [('C19-finished-exactly-when-all-four-actors-are-idle', c.result.t == z3.And(
        hot(s.buffer).total_capacity.t == hot(s.buffer).current_capacity.t,
        cold(s.buffer).total_capacity.t == cold(s.buffer).current_capacity.t,
        k.run.n == 0, k.occ.n == 0, k.ing.n == 0,
        s.scheduler.observation_queue.n == 0,
        allfin, z3.Not(tel.telescope_status.t), tel.telescope_use.t == 0))]


REG.contract('Simulation.is_finished', world=SIMW, ensures=_isfin_ens, result='bool', props=['C19', 'C04'])

REG.contract('Simulation.resume', world=SIMW, params={'until': 'num'},
             ensures=lambda c: [('C11-a-resumed-simulation-stays-marked-running', c.n.self.running.t),
                                ('C11-the-clock-stops-exactly-at-until', c.n.now == c.o.until.t),
                                ('C11-resume-leaves-the-output-mode-alone', c.n.self.to_file.t == c.o.self.to_file.t)],
             raises={'RuntimeError': dict(when=lambda c: z3.Not(c.o.self.running.t)),
                     'ValueError': dict(when=lambda c: z3.And(c.o.self.running.t, c.o.until.t <= c.o.now))},
             modifies=['world'], props=['C11'],
             note="C11: resume only advances the clock (env.run); refused, changing nothing, before start")


def _quiescent(c, sv):
    s = sv.self
    k = CV(s.cluster)
    st = sv.heap('Observation', 'status')
    tel = s.instrument
    return [('C04-no-task-running-no-machine-busy', z3.And(k.run.n == 0, k.occ.n == 0, k.ing.n == 0)),
            ('C04-no-observation-queued', s.scheduler.observation_queue.n == 0),
            ('C04-C07-both-buffers-at-full-free-capacity', z3.And(
                hot(s.buffer).current_capacity.t == hot(s.buffer).total_capacity.t,
                cold(s.buffer).current_capacity.t == cold(s.buffer).total_capacity.t)),
            ('C04-every-observation-finished', Q([('o', I)], lambda o: z3.Implies(tel.observations.count(o) > 0, z3.Select(st, o) == RS('FINISHED')))),
            ('C04-no-arrays-in-use', tel.telescope_use.t == 0),
            ('C02-every-machine-is-available-or-reserved-idle', Q([('m', I)], lambda m: z3.Implies(
                k.M.count(m) > 0, z3.Or(k.av.count(m) == 1, z3.Exists([z3.Int('ow')], z3.And(k.key(z3.Int('ow')), k.idl(z3.Int('ow'), m) > 0))))))]


def _start_ens(c):
    out = [('C11-marked-running', c.n.self.running.t)]
    # a run to completion (runtime <= 0) returns only in a quiescent state
    q = _quiescent(c, c.n)
    rt_ = c.o.runtime.t
    for nm, cl in q:
        if isinstance(cl, Q):
            out.append((nm, Q(cl.vars, (lambda body: (lambda *a: z3.Implies(rt_ <= 0, body(*a))))(cl.body))))
        else:
            out.append((nm, z3.Implies(rt_ <= 0, cl)))
    # the task table returned: exactly one row per task of the finished map of the state returned in
    from pyvc.state import TupleV
    rv = getattr(c.result, '_v', None)
    if isinstance(rv, TupleV) and len(rv.items) == 2:
        out.append(('C04-the-task-table-returned-has-one-row-per-task-of-the-finished-map',
                    DF_ROWS(c.result[1].t) == CV(c.n.self.cluster).fin.nk))
    return out


DF_COLS = z3.Function('df_cols', I, I)
REG.contract('Simulation._generate_final_task_data', world=SIMW, result='dframe',
             requires=lambda c: [('assume:task-ids-are-unique', Q([('t', I), ('u', I)], lambda t, u: z3.Implies(
                 z3.And(CV(c.o.self.cluster).fin.has(t), CV(c.o.self.cluster).fin.has(u), t != u),
                 z3.Select(c.o.heap('Task', 'id'), t) != z3.Select(c.o.heap('Task', 'id'), u))))],
             ensures=lambda c: [('C04-the-task-table-has-exactly-one-row-per-task-of-the-finished-map',
                                 DF_ROWS(c.result.t) == CV(c.o.self.cluster).fin.nk)],
             props=['C04', 'C11'],
             note="the task table: Cluster.finished_task_time_data (one column per task, proved) transposed and decorated; pandas "
                  "(.T, len, column assignment, infer_objects) is an assumed dependency contract")
REG.contract('Simulation.start', world=SIMW, params={'runtime': 'num'},
             ensures=_start_ens,
             raises={'RuntimeError': dict(when=lambda c: c.o.self.running.t),
                     'ValueError': dict(when=lambda c: z3.And(z3.Not(c.o.self.running.t), c.o.runtime.t > 0, c.o.runtime.t <= c.o.now), unchanged=False)},
             modifies=['world'], props=['C04', 'C11', 'C19'],
             note="partial correctness: termination of the run-until-finished loop is C05 (not claimed)")
REG.loop('Simulation.start', 0, inv=lambda c: [('running', c.n.self.running.t)], modifies=['world'], props=['C04'])


# fields of the Simulation object that no simulation process writes (env.run leaves them alone); checked by a scan of every
# generator function of topsim for stores to an attribute of that name
REG.run_const = {'Simulation.running', 'Simulation.to_file', 'Simulation._hdf5_store'}


def _scan_run_const():
    import ast
    from pyvc.source import Source
    src = Source()
    bad = []
    names = {f.split('.')[1] for f in REG.run_const}
    for q, fi in src.funcs.items():
        if not fi.is_generator:
            continue
        for n in ast.walk(fi.node):
            if isinstance(n, (ast.Assign, ast.AugAssign)):
                tg = n.targets if isinstance(n, ast.Assign) else [n.target]
                for t in tg:
                    if isinstance(t, ast.Attribute) and t.attr in names:
                        bad.append(f"{q}:{n.lineno}")
    return [], z3.BoolVal(not bad)


REG.lemmas.append(('scan-no-process-writes-Simulation.running', ['C11', 'C04'], _scan_run_const))


# ---- C10: no state shared between two runs in one process ---------------------------------------------------------------------
def _scan_shared_mutable_class_state():
    """a list / dict / set bound at CLASS level is one object shared by every instance, hence by every Simulation of a process:
    if a method mutates it through `self`, the second run of a configuration starts from the first run's leftovers.
    Static obligation over the whole source (the unchanged tree has no class-level mutable attribute at all)."""
    import ast
    from pyvc.source import Source
    src = Source()
    MUT = {'append', 'extend', 'insert', 'remove', 'pop', 'clear', 'add', 'update', 'discard', 'setdefault', 'popitem', 'sort', 'reverse'}
    shared = {}
    for cname, node in src.classes.items():
        for s in node.body:
            tg = None
            if isinstance(s, ast.Assign) and len(s.targets) == 1 and isinstance(s.targets[0], ast.Name):
                tg, v = s.targets[0].id, s.value
            elif isinstance(s, ast.AnnAssign) and isinstance(s.target, ast.Name) and s.value is not None:
                tg, v = s.target.id, s.value
            if tg and (isinstance(v, (ast.List, ast.Dict, ast.Set, ast.ListComp, ast.DictComp, ast.SetComp)) or (
                    isinstance(v, ast.Call) and isinstance(v.func, ast.Name) and v.func.id in ('list', 'dict', 'set', 'defaultdict', 'deque'))):
                shared.setdefault(tg, []).append(cname)
    bad = []
    if shared:
        for q, fi in src.funcs.items():
            rebinds = {t.attr for n in ast.walk(fi.node) if isinstance(n, ast.Assign) for t in n.targets
                       if isinstance(t, ast.Attribute) and isinstance(t.value, ast.Name) and t.value.id == 'self'} if fi.node.name == '__init__' else set()
            for n in ast.walk(fi.node):
                a = None
                if isinstance(n, ast.Call) and isinstance(n.func, ast.Attribute) and n.func.attr in MUT and isinstance(n.func.value, ast.Attribute):
                    a = n.func.value
                elif isinstance(n, (ast.Assign, ast.AugAssign)):
                    for t in (n.targets if isinstance(n, ast.Assign) else [n.target]):
                        if isinstance(t, ast.Subscript) and isinstance(t.value, ast.Attribute):
                            a = t.value
                        elif isinstance(n, ast.AugAssign) and isinstance(t, ast.Attribute):
                            a = t
                if a is not None and isinstance(a.value, ast.Name) and a.value.id in ('self', 'cls') and a.attr in shared:
                    cls_ = fi.cls
                    owners = shared[a.attr]
                    if cls_ in owners or any(o in [b.split('.')[-1] for b in src.bases.get(cls_, [])] for o in owners):
                        # harmless only if every instance rebinds the attribute in its own __init__
                        init = src.find_method(cls_, '__init__')
                        rb = {t.attr for m in ast.walk(init.node) if isinstance(m, ast.Assign) for t in m.targets
                              if isinstance(t, ast.Attribute) and isinstance(t.value, ast.Name) and t.value.id == 'self'} if init else set()
                        if a.attr not in rb:
                            bad.append(f"{q}:{n.lineno}:{a.attr}")
    return [], z3.BoolVal(not bad)


REG.lemmas.append(('C10-no-mutable-class-attribute-is-mutated-through-an-instance', ['C10'], _scan_shared_mutable_class_state))
