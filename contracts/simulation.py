"""Contracts for topsim/core/simulation.py and topsim/core/monitor.py (C11, C12, C13, C19, C04)."""
import z3
from .base import *
from .world import sim_world_of, EVENT
from .deps import DF_ROWS
from .cluster import CV
from .buffer import hot, cold, unlogged
from .telescope import RS

MW = sim_world_of('monitor')
SIMW = sim_world_of('simulation')


def _ce_ens(c):
    o, n = c.o.self, c.n.self
    so, sn = o.simulation, n.simulation
    logged = DF_ROWS(n.events.t) - DF_ROWS(o.events.t)
    return [('C13-everything-listed-is-logged-once', logged == so.instrument.events.n + so.scheduler.events.n + so.buffer.events.n),
            ('C13-C11-what-was-logged-is-drained', z3.And(sn.instrument.events.n == 0, sn.scheduler.events.n == 0, sn.buffer.events.n == 0)),
            ('C13-nothing-left-unlogged', z3.And(unlogged(c.n, 'instrument') == 0, unlogged(c.n, 'scheduler') == 0, unlogged(c.n, 'buffer') == 0))]


def _ce_ghost(eng, vals):
    for a in ('instrument', 'scheduler', 'buffer'):
        eng.st.ghost['unlogged_' + a] = z3.IntVal(0)


REG.contract('Monitor.collate_events', world=MW, ensures=_ce_ens, ghost=_ce_ghost,
             modifies=['self.events', 'self.simulation.instrument.events', 'self.simulation.scheduler.events', 'self.simulation.buffer.events',
                       'ghost:unlogged_instrument', 'ghost:unlogged_scheduler', 'ghost:unlogged_buffer'],
             props=['C13', 'C11'])

REG.contract('Monitor.collate_actor_dataframes', world=MW,
             ensures=lambda c: [('C12-one-row', DF_ROWS(c.result.t) == 1)], result='any', props=['C12'],
             note="the four actor snapshots it joins are Cluster.to_df, Buffer.to_df, Telescope.to_df, Scheduler.to_df (exact contracts)")


def _mrun_step(c):
    o, n = c.o.self, c.n.self
    return [('C12-exactly-one-row-per-timestep', DF_ROWS(n.df.t) == DF_ROWS(o.df.t) + 1)]


REG.contract('Monitor.run', world=MW, yields={0: lambda c: [('C12-one-step-wait', c.n['_ydelay'].t == 1)]}, step=_mrun_step,
             modifies=['self.df', 'self.events', 'self.simulation.instrument.events', 'self.simulation.scheduler.events',
                       'self.simulation.buffer.events', 'ghost:unlogged_instrument', 'ghost:unlogged_scheduler', 'ghost:unlogged_buffer'],
             props=['C12', 'C13'])


# ---- Simulation ----------------------------------------------------------------------------------------------------------------
def _isfin_ens(c):
    s = c.o.self
    k = CV(s.cluster)
    st = c.o.heap('Observation', 'status')
    tel = s.instrument
    allfin = z3.ForAll([z3.Int('oq')], z3.Implies(tel.observations.count(z3.Int('oq')) > 0, z3.Select(st, z3.Int('oq')) == RS('FINISHED')))
    return [('C19-finished-exactly-when-all-four-actors-are-idle', c.result.t == z3.And(
        hot(s.buffer).total_capacity.t == hot(s.buffer).current_capacity.t,
        cold(s.buffer).total_capacity.t == cold(s.buffer).current_capacity.t,
        k.run.n == 0, k.occ.n == 0, k.ing.n == 0,
        s.scheduler.observation_queue.n == 0,
        allfin, z3.Not(tel.telescope_status.t), tel.telescope_use.t == 0))]


REG.contract('Simulation.is_finished', world=SIMW, ensures=_isfin_ens, result='bool', props=['C19', 'C04'])

REG.contract('Simulation.resume', world=SIMW, params={'until': 'num'},
             raises={'RuntimeError': dict(when=lambda c: z3.Not(c.o.self.running.t)),
                     'ValueError': dict(when=lambda c: z3.And(c.o.self.running.t, c.o.until.t <= c.o.now))},
             modifies=['world'], props=['C11'],
             note="C11: resume only advances the clock (env.run); refused, changing nothing, before start")


def _quiescent(c, sv):
    s = sv.self
    k = CV(s.cluster)
    st = sv.heap('Observation', 'status')
    tel = s.instrument
    return [('C04-no-task-running-no-machine-busy', z3.And(k.run.n == 0, k.occ.n == 0, k.ing.n == 0)),
            ('C04-no-observation-queued', s.scheduler.observation_queue.n == 0),
            ('C04-C07-both-buffers-at-full-free-capacity', z3.And(
                hot(s.buffer).current_capacity.t == hot(s.buffer).total_capacity.t,
                cold(s.buffer).current_capacity.t == cold(s.buffer).total_capacity.t)),
            ('C04-every-observation-finished', Q([('o', I)], lambda o: z3.Implies(tel.observations.count(o) > 0, z3.Select(st, o) == RS('FINISHED')))),
            ('C04-no-arrays-in-use', tel.telescope_use.t == 0),
            ('C02-every-machine-is-available-or-reserved-idle', Q([('m', I)], lambda m: z3.Implies(
                k.M.count(m) > 0, z3.Or(k.av.count(m) == 1, z3.Exists([z3.Int('ow')], z3.And(k.key(z3.Int('ow')), k.idl(z3.Int('ow'), m) > 0))))))]


def _start_ens(c):
    out = [('C11-marked-running', c.n.self.running.t)]
    # a run to completion (runtime <= 0) returns only in a quiescent state
    q = _quiescent(c, c.n)
    rt_ = c.o.runtime.t
    for nm, cl in q:
        if isinstance(cl, Q):
            out.append((nm, Q(cl.vars, (lambda body: (lambda *a: z3.Implies(rt_ <= 0, body(*a))))(cl.body))))
        else:
            out.append((nm, z3.Implies(rt_ <= 0, cl)))
    return out


REG.contract('Simulation._generate_final_task_data', world=SIMW, assumed=True, result='any',
             note="ASSUMED / NOT COVERED: builds the task table with pandas from Cluster.finished_task_time_data (nested dict -> DataFrame); "
                  "the 'one row per executed task' clause of C04 is not decided")
REG.contract('Simulation.start', world=SIMW, params={'runtime': 'num'},
             ensures=_start_ens,
             raises={'RuntimeError': dict(when=lambda c: c.o.self.running.t),
                     'ValueError': dict(when=lambda c: z3.And(z3.Not(c.o.self.running.t), c.o.runtime.t > 0, c.o.runtime.t <= c.o.now), unchanged=False)},
             modifies=['world'], props=['C04', 'C11', 'C19'],
             note="partial correctness: termination of the run-until-finished loop is C05 (not claimed)")
REG.loop('Simulation.start', 0, inv=lambda c: [('running', c.n.self.running.t)], modifies=['world'], props=['C04'])


# fields of the Simulation object that no simulation process writes (env.run leaves them alone); checked by a scan of every
# generator function of topsim for stores to an attribute of that name
REG.run_const = {'Simulation.running', 'Simulation.to_file', 'Simulation._hdf5_store'}


def _scan_run_const():
    import ast
    from pyvc.source import Source
    src = Source()
    bad = []
    names = {f.split('.')[1] for f in REG.run_const}
    for q, fi in src.funcs.items():
        if not fi.is_generator:
            continue
        for n in ast.walk(fi.node):
            if isinstance(n, (ast.Assign, ast.AugAssign)):
                tg = n.targets if isinstance(n, ast.Assign) else [n.target]
                for t in tg:
                    if isinstance(t, ast.Attribute) and t.attr in names:
                        bad.append(f"{q}:{n.lineno}")
    return [], z3.BoolVal(not bad)


REG.lemmas.append(('scan-no-process-writes-Simulation.running', ['C11', 'C04'], _scan_run_const))
