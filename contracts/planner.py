"""Contracts for topsim/core/planner.py and the batch planner (C14)."""
import z3
from .base import *
from .deps import EDGE

REG.contract('WorkflowPlan.get_task_successors', params={'task_id': 'any'},
             ensures=lambda c: [('C14-successors-are-out-edges', Q([('x', I)], lambda x: c.result.count(x) ==
                                                                    z3.If(EDGE(c.o.self.graph.t, c.o.task_id.t, x), 1, 0)))],
             result='list:any', props=['C14'])
REG.contract('WorkflowPlan.get_task_predecessors', params={'task_id': 'any'},
             ensures=lambda c: [('C14-predecessors-are-in-edges', Q([('x', I)], lambda x: c.result.count(x) ==
                                                                     z3.If(EDGE(c.o.self.graph.t, x, c.o.task_id.t), 1, 0)))],
             result='list:any', props=['C14'])


def _lemma_pred_succ():
    g, p, t = z3.Ints('g p t')
    # over the two query contracts: p in predecessors(t)  <=>  t in successors(p)
    from .deps import SUCC_CNT, PRED_CNT
    x = z3.Int('x')
    hyps = [z3.ForAll([x], z3.Select(PRED_CNT(g, t), x) == z3.If(EDGE(g, x, t), 1, 0)),
            z3.ForAll([x], z3.Select(SUCC_CNT(g, p), x) == z3.If(EDGE(g, p, x), 1, 0))]
    return hyps, (z3.Select(PRED_CNT(g, t), p) > 0) == (z3.Select(SUCC_CNT(g, p), t) > 0)


REG.lemmas.append(('C14-p-precedes-t-iff-t-succeeds-p', ['C14'], _lemma_pred_succ))


# ================================================================================================ BatchPlanning.generate_plan (C14)
from pyvc.state import ObjV   # noqa: E402
from .deps import NODE, NODEATTR, EDGEATTR, NUMNODES, INDEG, AT   # noqa: E402
from .world import world_of   # noqa: E402

REG.ctor_params['BatchPlanning'] = {'algorithm': 'str', 'delay_model': 'DelayModel'}
REG.inline_ok.update({'Planning._create_observation_task_id', 'Buffer.buffer_storage_summary'})

CONCAT = z3.Function('str_concat', I, I, I)
STR_OF = z3.Function('str_of', I, I)
STR_OF_NUM = z3.Function('str_of_num', R, I)
USC = lambda: z3.IntVal(STRINGS.intern('_'))


def tid(name, clock, node):
    """spec function: name + '_' + str(clock) + '_' + str(node)"""
    return CONCAT(CONCAT(CONCAT(CONCAT(name, USC()), STR_OF_NUM(clock)), USC()), STR_OF(node))


def plan_world(eng):
    d = world_of('buffer')(eng)
    pl = eng.construct('BatchPlanning')
    return {'self': pl, 'cluster': d['cluster'], 'buffer': d['buffer']}


REG.contract('Planning._calc_workflow_est', world=plan_world, params={'observation': 'Observation', 'buffer': 'root:buffer'},
             requires=lambda c: [('cold-rate-positive', c.o.buffer.cold[0].max_data_rate.t > 0)],
             ensures=lambda c: [('is-the-duration', c.result.t == c.o.observation.duration.t)], result='num', props=['C14'])
GRAPH_OF = z3.Function('graph_of_workflow_file', I, I)

REG.contract('BatchPlanning._workflow_to_nx', assumed=True, params={'workflow': 'str'},
             ensures=lambda c: [('the-graph-described-by-the-file', z3.And(c.result.t > 0, c.result.t == GRAPH_OF(c.o.workflow.t)))],
             result='ref:Graph',
             note="ASSUMED: file I/O + networkx.node_link_graph; the graph it returns is arbitrary")


def _task_matches_node(c, sv, g, obs, clock, t):
    """task t is the faithful copy of node gid[t] of graph g"""
    H = lambda f: z3.Select(sv.heap('Task', f), t)
    x = H('graph_id')
    na = NODEATTR(g, x)
    comp = z3.Select(sv.heap('NodeAttr', 'comp'), na)
    td = z3.Select(sv.heap('NodeAttr', 'task_data'), na)
    has = z3.Select(sv.heap('NodeAttr', 'has:task_data', B), na)
    nm = obs.name.t
    predcnt = z3.Select(sv.heap('Task', 'pred.cnt', IntArr), t)
    iokeys = z3.Select(sv.heap('Task', 'io.keys', BoolArr), t)
    iovals = z3.Select(sv.heap('Task', 'io.vals', z3.ArraySort(I, R)), t)
    p = z3.Int('pp')
    return z3.And(
        NODE(g, x), H('id') == tid(nm, clock, x), H('flops') == comp, H('task_data') == z3.If(has, td, 0),
        H('task_status') == enum_code('TaskStatus', 'UNSCHEDULED'),
        z3.ForAll([p], z3.Implies(EDGE(g, p, x), z3.And(
            z3.Select(predcnt, tid(nm, clock, p)) >= 1, z3.Select(iokeys, tid(nm, clock, p)),
            z3.Select(iovals, tid(nm, clock, p)) == z3.Select(sv.heap('EdgeAttr', 'transfer_data'), EDGEATTR(g, p, x))))),
        z3.Select(sv.heap('Task', 'pred.n', I), t) == INDEG(g, x))


def string_axioms():
    """ASSUMED about Python strings: str() is injective on node identifiers; s + t determines t for a fixed s"""
    a, b, p_ = z3.Int('sa'), z3.Int('sb'), z3.Int('sp')
    return [('assume:str-is-injective-on-node-ids', z3.ForAll([a, b], z3.Implies(STR_OF(a) == STR_OF(b), a == b))),
            ('assume:concatenation-is-injective-in-its-suffix', z3.ForAll([p_, a, b], z3.Implies(CONCAT(p_, a) == CONCAT(p_, b), a == b)))]


def config_axioms(c, sv):
    x = z3.Int('nq')
    return [('assume:node-demands-nonneg', z3.ForAll([x], z3.And(z3.Select(sv.heap('NodeAttr', 'comp'), x) >= 0,
                                                               z3.Select(sv.heap('NodeAttr', 'task_data'), x) >= 0)))]


def _gp_inv(c):
    n = c.n
    vis = c.x['visited']
    T, M = n['tasks'], n['mapping']
    g = n['graph'].t
    clock = n.clock.t
    alloc = c.eng.alloc()
    alloc_pre = c.x['pre']._s.ghost.get('alloc', c.eng.alloc0())
    c.eng.seq_facts(T.val)
    c.eng.seq_facts(c.x['iter'])
    return [('existing-tasks-keep-their-status', Q([('x', I)], lambda x: z3.Implies(z3.Select(alloc_pre, x), z3.Select(
        n.heap('Task', 'task_status'), x) == z3.Select(c.x['pre'].heap('Task', 'task_status'), x)))),
            ('new-tasks-are-new', Q([('t', I)], lambda t: z3.Implies(T.count(t) > 0, z3.Not(z3.Select(alloc_pre, t))))),
            ('old-objects-stay-allocated', Q([('x', I)], lambda x: z3.Implies(z3.Select(alloc_pre, x), z3.Select(alloc, x)))),
            ('C14-one-task-per-visited-node', z3.And(T.n == vis.n, M.nk == vis.n)),
            ('C14-mapping-covers-exactly-the-visited-nodes', Q([('x', I)], lambda x: z3.Select(M.keys, x) == (z3.Select(vis.cnt, x) > 0))),
            ('C14-mapped-task-is-listed-once-and-copies-its-node', Q([('x', I)], lambda x: z3.Implies(z3.Select(M.keys, x), z3.And(
                T.count(z3.Select(M.vals, x)) == 1, z3.Select(M.vals, x) > 0, z3.Select(alloc, z3.Select(M.vals, x)),
                z3.Select(n.heap('Task', 'graph_id'), z3.Select(M.vals, x)) == x,
                _task_matches_node(c, n, g, n.observation, clock, z3.Select(M.vals, x)))))),
            ('C14-every-listed-task-is-the-image-of-its-node', Q([('t', I)], lambda t: z3.Implies(T.count(t) > 0, z3.And(
                T.count(t) == 1, z3.Select(M.keys, z3.Select(n.heap('Task', 'graph_id'), t)),
                z3.Select(M.vals, z3.Select(n.heap('Task', 'graph_id'), t)) == t)))),
            ('C14-tasks-are-listed-in-the-order-of-the-topological-sort', Q([('j', I)], lambda j: z3.Implies(
                z3.And(0 <= j, j < vis.n), z3.And(z3.Select(vis.cnt, AT(c.x['iter'].seq, j)) > 0,
                                                  z3.Select(n.heap('Task', 'graph_id'), AT(T.val.seq, j)) == AT(c.x['iter'].seq, j)))))]


def _edge_inv(c):
    n = c.n
    vis = c.x['visited']
    ec = n['edge_costs']
    g, x = n['graph'].t, c.eng.as_int_term(n['task'].val)
    nm, clock = n.observation.name.t, n.clock.t
    return [('io-has-every-visited-predecessor-edge', Q([('p', I)], lambda p: z3.Implies(z3.Select(vis.cnt, p) > 0, z3.And(
        z3.Select(ec.keys, tid(nm, clock, p)),
        z3.Select(ec.vals, tid(nm, clock, p)) == z3.Select(n.heap('EdgeAttr', 'transfer_data'), EDGEATTR(g, p, x))))))]


def _gp_ens(c):
    o, n = c.o, c.n
    plan = c.result
    g2 = plan.graph.t
    T = plan.tasks
    H = lambda f, t: z3.Select(n.heap('Task', f), t)
    g = GRAPH_OF(o.observation.workflow.t)
    tw = z3.Int('tw')
    seqT = T.val.seq
    c.eng.seq_facts(T.val)
    return [('C14-tasks-listed-in-a-topological-order', Q([('i', I), ('j', I)], lambda i, j: z3.Implies(
        z3.And(0 <= i, i < j, j < T.n), z3.Not(EDGE(g, H('graph_id', AT(seqT, j)), H('graph_id', AT(seqT, i))))))),
            ('C14-exactly-as-many-tasks-as-nodes', T.n == NUMNODES(g)),
            ('C14-every-task-is-a-faithful-copy-of-its-node', Q([('t', I)], lambda t: z3.Implies(
                T.count(t) > 0, _task_matches_node(c, n, g, o.observation, o.clock.t, t)))),
            ('C14-every-node-has-a-task', Q([('x', I)], lambda x: z3.Implies(NODE(g, x), z3.Exists(
                [tw], z3.And(T.count(tw) > 0, H('graph_id', tw) == x))))),
            ('C14-plan-graph-has-the-same-edges', Q([('t', I), ('u', I)], lambda t, u: z3.Implies(
                z3.And(T.count(t) > 0, T.count(u) > 0), EDGE(g2, t, u) == EDGE(g, H('graph_id', t), H('graph_id', u))))),
            ('C14-plan-carries-the-observation-name', plan.id.t == o.observation.name.t),
            ('C14-task-ids-unique-given-distinct-nodes', Q([('t', I), ('u', I)], lambda t, u: z3.Implies(
                z3.And(T.count(t) > 0, T.count(u) > 0, t != u), H('graph_id', t) != H('graph_id', u)))),
            ('C14-each-task-listed-once', Q([('t', I)], lambda t: T.count(t) <= 1))]


REG.contract('BatchPlanning.generate_plan', world=plan_world,
             params={'clock': 'num', 'cluster': 'root:cluster', 'buffer': 'root:buffer', 'observation': 'Observation', 'max_ingest': 'any'},
             requires=lambda c: [('cold-rate-positive', c.o.buffer.cold[0].max_data_rate.t > 0)] + string_axioms() + config_axioms(c, c.o),
             ensures=_gp_ens, result='WorkflowPlan',
             raises={'RuntimeError': dict(when=lambda c: c.o.self.algorithm.t != STRINGS.intern('batch')),
                     'KeyError': dict(when=None, unchanged=False)},
             modifies=['ghost:alloc'] + ['heap:Task.' + f for f in ('id', 'est', 'eft', 'ast', 'aft', 'allocated_machine_id', 'duration',
                       'est_duration', 'delay_flag', 'task_status', 'pred', 'delay', 'delay_offset', 'workflow_offset', 'graph_id', 'flops',
                       'task_data', 'io')] + ['heap:WorkflowPlan.' + f for f in ('id', 'est', 'eft', 'tasks', 'exec_order', 'status',
                       'max_ingest', 'graph', 'min_resources', 'max_resources', 'priority')],
             props=['C14', 'C03'])


def _gp_refines(ens0):
    """Planner.run is verified against the abstract `Planning.generate_plan` (assumed: the planning model is user supplied); the
    shipped BatchPlanning.generate_plan is verified to refine it: same post-condition, frame not checked (the abstract callee may
    create tasks and a plan, which is all this one does: see `modifies`)"""
    ab = REG.contracts['Planning.generate_plan'] if 'Planning.generate_plan' in REG.contracts else None

    def ens(c):
        out = list(ens0(c))
        out.append(('refines-Planning.generate_plan:returns-a-plan', c.result.t > 0))
        return out
    return ens


REG.contracts['BatchPlanning.generate_plan'].ensures = _gp_refines(REG.contracts['BatchPlanning.generate_plan'].ensures)
REG.loop('BatchPlanning.generate_plan', 0, inv=_gp_inv,
         modifies_locals=['task', 'tid', 'dm', 'pred', 'predecessors', 'succ', 'successors', 'edge_costs', 'data', 'element', 'nm', 'val',
                          'est', 'eft', 'machine_id', 'task_compute', 'task_data', 'taskobj'],
         ordered=True, positions=['tasks'],
         modifies=['tasks', 'mapping', 'ghost:alloc'] + ['heap:Task.' + f for f in ('id', 'est', 'eft', 'ast', 'aft', 'allocated_machine_id',
                   'duration', 'est_duration', 'delay_flag', 'task_status', 'pred', 'delay', 'delay_offset', 'workflow_offset', 'graph_id',
                   'flops', 'task_data', 'io')],
         props=['C14'])
REG.loop('BatchPlanning.generate_plan', 1, inv=_edge_inv, modifies_locals=['element', 'nm', 'val'], modifies=['edge_costs'],
         elem_types={'edge_costs': 'dict:str->num'}, props=['C14'])
