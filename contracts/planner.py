"""Contracts for topsim/core/planner.py and the batch planner (C14)."""
import z3
from .base import *
from .deps import EDGE

REG.contract('WorkflowPlan.get_task_successors', params={'task_id': 'any'},
             ensures=lambda c: [('C14-successors-are-out-edges', Q([('x', I)], lambda x: c.result.count(x) ==
                                                                    z3.If(EDGE(c.o.self.graph.t, c.o.task_id.t, x), 1, 0)))],
             result='list:any', props=['C14'])
REG.contract('WorkflowPlan.get_task_predecessors', params={'task_id': 'any'},
             ensures=lambda c: [('C14-predecessors-are-in-edges', Q([('x', I)], lambda x: c.result.count(x) ==
                                                                     z3.If(EDGE(c.o.self.graph.t, x, c.o.task_id.t), 1, 0)))],
             result='list:any', props=['C14'])


def _lemma_pred_succ():
    g, p, t = z3.Ints('g p t')
    # over the two query contracts: p in predecessors(t)  <=>  t in successors(p)
    pred_t = z3.Lambda([z3.Int('x')], z3.If(EDGE(g, z3.Int('x'), t), 1, 0))
    succ_p = z3.Lambda([z3.Int('x')], z3.If(EDGE(g, p, z3.Int('x')), 1, 0))
    return [], (z3.Select(pred_t, p) > 0) == (z3.Select(succ_p, t) > 0)


REG.lemmas.append(('C14-p-precedes-t-iff-t-succeeds-p', ['C14'], _lemma_pred_succ))
