"""Shared registry, entity schemas (the heap classes) and small helpers for all contract modules."""
import z3
from pyvc.spec import Registry, V, SV, Ctx
from pyvc.core import Q, to_real, zfloor, ztrunc, zmax, zmin
from pyvc.state import I, R, B, IntArr, BoolArr, Sym, ENUMS, STRINGS, EnumConst

REG = Registry()

# ---- entity classes: objects that live in the symbolic heap (one SMT array per field) ------------------------
REG.entities['Machine'] = dict(
    id='str', cpu='num', memory='num', disk='num', bandwidth='num', status='enum:Status',
    transfer_flag='bool', current_task='opt:ref:Task')
REG.entities['Task'] = dict(
    id='str', est='num', eft='num', ast='num', aft='num', allocated_machine_id='any', duration='num',
    est_duration='num', delay_flag='bool', task_status='enum:TaskStatus', pred='list:str',
    delay='opt:ref:DelayModel', delay_offset='num', workflow_offset='num', graph_id='any', flops='num',
    task_data='num', io='dict:str->num|num',
    ghost_ingest='bool')     # GHOST (no code reads or writes it): the task was created by Cluster._generate_ingest_tasks
REG.entities['Observation'] = dict(
    name='str', buffer_id='num', cluster_id='str', est='num', ast='optnum', duration='int', demand='num',
    workflow='str', total_data_size='num', ingest_data_rate='int', timestep='any', status='enum:RunStatus',
    min_resources='num', max_resources='num', plan='opt:ref:WorkflowPlan')
REG.entities['WorkflowPlan'] = dict(
    id='str', est='num', eft='num', ast='num', tasks='list:Task', exec_order='list:any', status='enum:WorkflowStatus',
    max_ingest='any', graph='ref:Graph', min_resources='any', max_resources='any', priority='any')
REG.entities['DelayModel'] = dict(prob='num', dist='str', degree='enum:DelayDegree', seed='any')
REG.entities['Graph'] = dict()


def enum_code(cls, member):
    return z3.IntVal(ENUMS.code(cls, member))


def is_int(t):
    return z3.IsInt(t)
