"""Assumed contracts on dependencies (never proved; DESIGN.md 5.8): networkx graphs, numpy RNG, pandas frames."""
import z3
from pyvc.state import ListObj, Sym, fresh_name
from .base import *

EDGE = z3.Function('nx_edge', I, I, I, B)          # edge(graph, u, v)
NODE = z3.Function('nx_node', I, I, B)             # node(graph, u)
OUTDEG = z3.Function('nx_outdeg', I, I, I)
INDEG = z3.Function('nx_indeg', I, I, I)


def succ_list(eng, g, u, elem='any'):
    x = z3.Int('nx_x')
    l = ListObj(z3.Lambda([x], z3.If(EDGE(g, u, x), 1, 0)), OUTDEG(g, u), elem)
    l.frozen = True
    eng.st.assume(OUTDEG(g, u) >= 0)
    y = z3.Int(fresh_name('nxy'))
    eng.st.assume(z3.Implies(OUTDEG(g, u) == 0, z3.ForAll([y], z3.Not(EDGE(g, u, y)))))
    return l


def pred_list(eng, g, v, elem='any'):
    x = z3.Int('nx_x')
    l = ListObj(z3.Lambda([x], z3.If(EDGE(g, x, v), 1, 0)), INDEG(g, v), elem)
    l.frozen = True
    eng.st.assume(INDEG(g, v) >= 0)
    y = z3.Int(fresh_name('nxy'))
    eng.st.assume(z3.Implies(INDEG(g, v) == 0, z3.ForAll([y], z3.Not(EDGE(g, y, v)))))
    return l


def _successors(eng, recv, args, node):
    return succ_list(eng, recv.t, eng.as_int_term(args[0]), 'Task')


def _predecessors(eng, recv, args, node):
    return pred_list(eng, recv.t, eng.as_int_term(args[0]), 'Task')


REG.dep_classes['Graph'] = {'successors': _successors, 'predecessors': _predecessors}
