"""Assumed contracts on dependencies (never proved; DESIGN.md 5.8): networkx graphs, numpy RNG, pandas frames."""
import z3
from pyvc.state import ListObj, Sym, fresh_name
from .base import *

EDGE = z3.Function('nx_edge', I, I, I, B)          # edge(graph, u, v)
NODE = z3.Function('nx_node', I, I, B)             # node(graph, u)
OUTDEG = z3.Function('nx_outdeg', I, I, I)
INDEG = z3.Function('nx_indeg', I, I, I)


SUCC_CNT = z3.Function('nx_succ_cnt', I, I, IntArr)
PRED_CNT = z3.Function('nx_pred_cnt', I, I, IntArr)
NODES_CNT = z3.Function('nx_nodes_cnt', I, IntArr)


def succ_list(eng, g, u, elem='any'):
    x = z3.Int(fresh_name('nxx'))
    eng.st.assume(z3.ForAll([x], z3.Select(SUCC_CNT(g, u), x) == z3.If(EDGE(g, u, x), 1, 0)))
    l = ListObj(SUCC_CNT(g, u), OUTDEG(g, u), elem)
    l.frozen = True
    eng.st.assume(OUTDEG(g, u) >= 0)
    y = z3.Int(fresh_name('nxy'))
    eng.st.assume(z3.Implies(OUTDEG(g, u) == 0, z3.ForAll([y], z3.Not(EDGE(g, u, y)))))
    return l


def pred_list(eng, g, v, elem='any'):
    x = z3.Int(fresh_name('nxx'))
    eng.st.assume(z3.ForAll([x], z3.Select(PRED_CNT(g, v), x) == z3.If(EDGE(g, x, v), 1, 0)))
    l = ListObj(PRED_CNT(g, v), INDEG(g, v), elem)
    l.frozen = True
    eng.st.assume(INDEG(g, v) >= 0)
    y = z3.Int(fresh_name('nxy'))
    eng.st.assume(z3.Implies(INDEG(g, v) == 0, z3.ForAll([y], z3.Not(EDGE(g, y, v)))))
    return l


def _successors(eng, recv, args, node):
    return succ_list(eng, recv.t, eng.as_int_term(args[0]), 'Task')


def _predecessors(eng, recv, args, node):
    return pred_list(eng, recv.t, eng.as_int_term(args[0]), 'Task')


REG.dep_classes['Graph'] = {'successors': _successors, 'predecessors': _predecessors}


# ---- pandas (assumed): frames are opaque ids with a row count ----------------------------------------------------------------
DF_ROWS = z3.Function('df_rows', I, I)


def _new_frame(eng, rows, base='frame'):
    f = Sym('any', z3.Int(fresh_name(base)))
    eng.st.assume(DF_ROWS(f.t) == rows)
    return f


def _rows_of(eng, v):
    from pyvc.state import Record, ListObj, PyList
    if isinstance(v, Sym):
        return DF_ROWS(v.t)
    if isinstance(v, Record):      # a frame built column by column with one-element lists
        return z3.IntVal(1 if v.items else 0)
    raise Exception('not a frame')


def pd_DataFrame(eng, recv, args, node):
    from pyvc.state import ListObj, Record
    if not args:
        return Record({}, label='DataFrame')
    a = args[0]
    if isinstance(a, ListObj):          # DataFrame(list of dicts): one row per element
        return _new_frame(eng, a.n)
    from pyvc.state import DictObj
    if isinstance(a, DictObj):          # DataFrame(dict of dicts): one column per key
        f = eng.fresh_of_type('dframe', 'frame')
        eng.st.assume(z3.Function('df_cols', I, I)(f.t) == a.nk)
        return f
    return _new_frame(eng, z3.Int(fresh_name('rows')))


def pd_concat(eng, recv, args, node):
    from pyvc.state import PyList
    frames = args[0]
    if not isinstance(frames, PyList):
        raise Exception('pd.concat of a non-literal list')
    total = z3.IntVal(0)
    for f in frames.items:
        total = total + _rows_of(eng, f)
    return _new_frame(eng, total)


REG.dep_classes['module:pd'] = {'DataFrame': pd_DataFrame, 'concat': pd_concat}


# ---- numpy.random (assumed) ---------------------------------------------------------------------------------------------------
# default_rng(seed) is a pure function of seed; default_rng() without a seed is NOT a function of program state.
REG.entities['Rng'] = dict(seed='any', seeded='bool')
REG.entities['NpArr'] = dict()
NP_LEN = z3.Function('np_len', I, I)
NP_AT = z3.Function('np_at', I, I, R)
NP_RANDOM = z3.Function('np_random', I, R)                 # first .random() of default_rng(seed)
NP_NORMAL = z3.Function('np_normal', I, R, R, I, I)        # array id of default_rng(seed).normal(mu, sigma, n)
NP_POISSON = z3.Function('np_poisson', I, R, I, I)
NP_FILTER_GT = z3.Function('np_filter_gt', I, R, I)        # a[a > x]


def note_nondet(eng, term, what):
    eng.st.ghost.setdefault('_nondet', []).append((term, what))


def np_default_rng(eng, args, node):
    r = Sym('ref', z3.Int(fresh_name('rng')), 'Rng')
    eng.st.assume(r.t > 0)
    if args:
        eng.heap_write(r, 'seed', args[0])
        eng.heap_write(r, 'seeded', True)
    else:
        fresh = Sym('any', z3.Int(fresh_name('entropy')))
        note_nondet(eng, fresh.t, f"default_rng() without a seed at line {getattr(node, 'lineno', '?')}")
        eng.heap_write(r, 'seed', fresh)
        eng.heap_write(r, 'seeded', False)
    return r


def _seed(eng, rng):
    return eng.heap_read(rng, 'seed').t


def rng_random(eng, recv, args, node):
    v = NP_RANDOM(_seed(eng, recv))
    eng.st.assume(z3.And(v >= 0, v < 1))
    return Sym('num', v)


def _arr(eng, aid, n):
    a = Sym('ref', aid, 'NpArr')
    eng.st.assume(z3.And(aid > 0, NP_LEN(aid) == n, n >= 0))
    return a


def rng_normal(eng, recv, args, node):
    mu, sigma, n = eng.num(args[0]), eng.num(args[1]), z3.ToInt(eng.num(args[2]))
    eng.check_or_raise(sigma >= 0, 'ValueError', node, 'normal(): scale < 0')
    aid = NP_NORMAL(_seed(eng, recv), mu, sigma, n)
    i = z3.Int(fresh_name('ni'))
    eng.st.assume(z3.Implies(sigma == 0, z3.ForAll([i], NP_AT(aid, i) == mu)))
    return _arr(eng, aid, z3.If(n >= 0, n, 0))


def rng_poisson(eng, recv, args, node):
    lam, n = eng.num(args[0]), z3.ToInt(eng.num(args[1]))
    eng.check_or_raise(lam >= 0, 'ValueError', node, 'poisson(): lam < 0')
    eng.check_or_raise(n >= 0, 'ValueError', node, 'poisson(): negative size')
    aid = NP_POISSON(_seed(eng, recv), lam, n)
    i = z3.Int(fresh_name('pi'))
    eng.st.assume(z3.Implies(lam == 0, z3.ForAll([i], NP_AT(aid, i) == 0)))
    return _arr(eng, aid, n)


def rng_uniform(eng, recv, args, node):
    if not args:
        v = Sym('num', z3.Function('np_uniform', I, R)(_seed(eng, recv)))     # a float scalar
        return v
    raise Exception('uniform(size) not modelled')


REG.dep_classes['Rng'] = {'random': rng_random, 'normal': rng_normal, 'poisson': rng_poisson, 'uniform': rng_uniform}

REG.value_classes = {'Rng', 'NpArr'}      # freshly created value objects: their fields are not part of any frame


# ---- networkx: graph construction / queries used by the planner (assumed) -----------------------------------------------------
REG.entities['NodeAttr'] = {'comp': 'num', 'task_data': 'num', 'has:task_data': 'bool'}
REG.entities['EdgeAttr'] = {'transfer_data': 'num'}
NODEATTR = z3.Function('nx_nodeattr', I, I, I)         # (graph, node) -> attribute dict object
EDGEATTR = z3.Function('nx_edgeattr', I, I, I, I)      # (graph, u, v) -> attribute dict object
NUMNODES = z3.Function('nx_numnodes', I, I)
AT = z3.Function('at', I, I, I)


def nx_topological_sort(eng, recv, args, node):
    """every node exactly once, every edge forward"""
    g = args[0].t
    x = z3.Int(fresh_name('nxt'))
    eng.st.assume(z3.ForAll([x], z3.Select(NODES_CNT(g), x) == z3.If(NODE(g, x), 1, 0)))
    l = ListObj(NODES_CNT(g), NUMNODES(g), 'any')
    eng.st.assume(NUMNODES(g) >= 0)
    i, j = z3.Int(fresh_name('ti')), z3.Int(fresh_name('tj'))
    seq = l.seq
    eng.st.assume(z3.ForAll([i, j], z3.Implies(z3.And(0 <= i, i < j, j < l.n), z3.And(
        AT(seq, i) != AT(seq, j), z3.Not(EDGE(g, AT(seq, j), AT(seq, i)))))))
    eng.st.assume(z3.ForAll([i], z3.Implies(z3.And(0 <= i, i < l.n), NODE(g, AT(seq, i)))))
    a, b = z3.Int(fresh_name('ea')), z3.Int(fresh_name('eb'))
    eng.st.assume(z3.ForAll([a, b], z3.Implies(EDGE(g, a, b), z3.And(NODE(g, a), NODE(g, b)))))
    return l


def nx_relabel_nodes(eng, recv, args, node):
    """the image graph under an injective mapping (a dict node -> new node)"""
    g, mp = args[0].t, args[1]
    g2 = Sym('ref', z3.Int(fresh_name('relabelled')), 'Graph')
    eng.st.assume(g2.t > 0)
    a, b = z3.Int(fresh_name('ra')), z3.Int(fresh_name('rb'))
    M = lambda v: z3.Select(mp.vals, v)
    eng.st.assume(z3.ForAll([a, b], z3.Implies(z3.And(z3.Select(mp.keys, a), z3.Select(mp.keys, b)),
                                               EDGE(g2.t, M(a), M(b)) == EDGE(g, a, b))))
    eng.st.assume(z3.ForAll([a], z3.Implies(z3.Select(mp.keys, a), NODE(g2.t, M(a)) == NODE(g, a))))
    return g2


REG.dep_classes['module:nx.algorithms'] = {'topological_sort': nx_topological_sort}
REG.dep_classes['module:nx'] = {'relabel_nodes': nx_relabel_nodes}


# ---- math (standard library; exact semantics over the reals - float rounding is not modelled, DESIGN section 5) -------------
def _math_isclose(eng, recv, args, node, kwargs=None):
    """math.isclose(a, b, rel_tol=1e-09, abs_tol=0.0): |a - b| <= max(rel_tol * max(|a|, |b|), abs_tol)"""
    a, b = eng.num(args[0]), eng.num(args[1])
    rel = z3.RealVal('1/1000000000')
    ab = lambda x: z3.If(x >= 0, x, -x)
    mx = z3.If(ab(a) >= ab(b), ab(a), ab(b))
    return Sym('bool', z3.Or(a == b, ab(a - b) <= rel * mx))


def _math_floor(eng, recv, args, node):
    return Sym('num', zfloor(eng.num(args[0])), isint=True)


def _math_ceil(eng, recv, args, node):
    x = eng.num(args[0])
    return Sym('num', -zfloor(-x), isint=True)


def _math_fabs(eng, recv, args, node):
    x = eng.num(args[0])
    return Sym('num', z3.If(x >= 0, x, -x))


REG.dep_classes['module:math'] = {'isclose': _math_isclose, 'floor': _math_floor, 'ceil': _math_ceil, 'fabs': _math_fabs}
