"""Assumed contracts on dependencies (never proved; DESIGN.md 5.8): networkx graphs, numpy RNG, pandas frames."""
import z3
from pyvc.state import ListObj, Sym, fresh_name
from .base import *

EDGE = z3.Function('nx_edge', I, I, I, B)          # edge(graph, u, v)
NODE = z3.Function('nx_node', I, I, B)             # node(graph, u)
OUTDEG = z3.Function('nx_outdeg', I, I, I)
INDEG = z3.Function('nx_indeg', I, I, I)


def succ_list(eng, g, u, elem='any'):
    x = z3.Int('nx_x')
    l = ListObj(z3.Lambda([x], z3.If(EDGE(g, u, x), 1, 0)), OUTDEG(g, u), elem)
    l.frozen = True
    eng.st.assume(OUTDEG(g, u) >= 0)
    y = z3.Int(fresh_name('nxy'))
    eng.st.assume(z3.Implies(OUTDEG(g, u) == 0, z3.ForAll([y], z3.Not(EDGE(g, u, y)))))
    return l


def pred_list(eng, g, v, elem='any'):
    x = z3.Int('nx_x')
    l = ListObj(z3.Lambda([x], z3.If(EDGE(g, x, v), 1, 0)), INDEG(g, v), elem)
    l.frozen = True
    eng.st.assume(INDEG(g, v) >= 0)
    y = z3.Int(fresh_name('nxy'))
    eng.st.assume(z3.Implies(INDEG(g, v) == 0, z3.ForAll([y], z3.Not(EDGE(g, y, v)))))
    return l


def _successors(eng, recv, args, node):
    return succ_list(eng, recv.t, eng.as_int_term(args[0]), 'Task')


def _predecessors(eng, recv, args, node):
    return pred_list(eng, recv.t, eng.as_int_term(args[0]), 'Task')


REG.dep_classes['Graph'] = {'successors': _successors, 'predecessors': _predecessors}


# ---- pandas (assumed): frames are opaque ids with a row count ----------------------------------------------------------------
DF_ROWS = z3.Function('df_rows', I, I)


def _new_frame(eng, rows, base='frame'):
    f = Sym('any', z3.Int(fresh_name(base)))
    eng.st.assume(DF_ROWS(f.t) == rows)
    return f


def _rows_of(eng, v):
    from pyvc.state import Record, ListObj, PyList
    if isinstance(v, Sym):
        return DF_ROWS(v.t)
    if isinstance(v, Record):      # a frame built column by column with one-element lists
        return z3.IntVal(1 if v.items else 0)
    raise Exception('not a frame')


def pd_DataFrame(eng, recv, args, node):
    from pyvc.state import ListObj, Record
    if not args:
        return Record({}, label='DataFrame')
    a = args[0]
    if isinstance(a, ListObj):          # DataFrame(list of dicts): one row per element
        return _new_frame(eng, a.n)
    return _new_frame(eng, z3.Int(fresh_name('rows')))


def pd_concat(eng, recv, args, node):
    from pyvc.state import PyList
    frames = args[0]
    if not isinstance(frames, PyList):
        raise Exception('pd.concat of a non-literal list')
    total = z3.IntVal(0)
    for f in frames.items:
        total = total + _rows_of(eng, f)
    return _new_frame(eng, total)


REG.dep_classes['module:pd'] = {'DataFrame': pd_DataFrame, 'concat': pd_concat}
