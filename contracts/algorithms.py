"""Contracts for the in-tree scheduling algorithms topsim/user/schedule/*.py (C03, C09, C10, C17)."""
import z3
from pyvc.state import ObjV
from .base import *
from .cluster import CV, cluster_invariant, same_list, same_idle
from .deps import EDGE
from .task import TS

WS = lambda m: enum_code('WorkflowStatus', m)

REG.ctor_params['BatchProcessing'] = {'max_resource_partitions': 'int', 'min_resources_per_workflow': 'int',
                                      'resource_split': 'dict:str->pair:any,any'}
REG.ctor_params['QueueProcessing'] = {'max_resource_partitions': 'int', 'min_resources_per_workflow': 'int', 'resource_split': 'none'}
REG.ctor_params['DynamicSchedulingFromPlan'] = {}
REG.ctor_params['GreedySchedulingFromPlan'] = {}
REG.field_types.update({'BatchProcessing.max_resources_split': 'int', 'BatchProcessing.min_resource_per_workflow': 'int'})


def alg_world(cls):
    def w(eng):
        return {'self': eng.construct(cls), 'cluster': eng.construct('Cluster')}
    return w


BPW = alg_world('BatchProcessing')
FST = z3.Function('fst', I, I)
SND = z3.Function('snd', I, I)
NUM_OF = z3.Function('num_of', I, R)


def split_of(c, sv):
    """(min, max) of the per-observation split for this plan, as numbers"""
    d = sv.self.resource_split
    p = z3.Select(d.vals, sv.workflow_plan.id.t)
    return NUM_OF(FST(p)), NUM_OF(SND(p)), z3.Select(d.keys, sv.workflow_plan.id.t)


def _mrp_ens(c):
    s = c.o.self
    k = CV(c.o.cluster)
    avail = z3.ToReal(k.av.n)
    total = z3.ToReal(k.M.n)
    res = c.result.t
    has_split = s.resource_split.nk > 0
    mn, mx, _ = split_of(c, c.o)
    parts = s.max_resources_split.t
    allowed = ztrunc(total / parts)
    return [('C09-never-more-than-the-free-machines', res <= avail), ('nonneg', z3.Implies(z3.And(mx >= 0, parts > 0), res >= 0)),
            ('C09-without-split-at-most-floor-machines-over-partitions', z3.Implies(z3.Not(has_split), z3.And(
                res <= zmax(allowed, 0), res == z3.If(avail == 0, 0, z3.If(avail < allowed, avail, allowed))))),
            ('C09-with-split-within-the-observations-minimum-and-maximum-or-nothing', z3.Implies(has_split, z3.Or(
                res == 0, z3.And(res >= mn, res <= mx)))),
            ('whole-number-because-it-is-one-of-these', z3.Or(res == avail, res == mx, res == 0, res == allowed)),
            ('C09-with-split-exact', z3.Implies(has_split, res == z3.If(z3.Or(avail == 0, avail < mn), 0, zminr(avail, mx))))]


def zminr(a, b):
    return z3.If(a <= b, a, b)


REG.contract('BatchProcessing._max_resource_provision', world=BPW,
             params={'cluster': 'root:cluster', 'workflow_plan': 'WorkflowPlan'},
             requires=lambda c: [('partitions-positive', c.o.self.max_resources_split.t > 0),
                                 ('assume:split-is-whole-and-min-le-max', z3.Implies(c.o.self.resource_split.nk > 0, z3.And(
                                     z3.IsInt(split_of(c, c.o)[1]), split_of(c, c.o)[0] <= split_of(c, c.o)[1])))],
             ensures=_mrp_ens, result='int',
             raises={'RuntimeError': dict(when=lambda c: z3.And(c.o.self.resource_split.nk > 0, split_of(c, c.o)[0] > z3.ToReal(CV(c.o.cluster).M.n))),
                     'KeyError': dict(when=lambda c: z3.And(c.o.self.resource_split.nk > 0, z3.Not(split_of(c, c.o)[2])))},
             props=['C09'])


def _pr_ens(c):
    s = c.o.self
    k0, k1 = CV(c.o.cluster), CV(c.n.cluster)
    pid = c.o.workflow_plan.id.t
    was = k0.key(pid)
    made = z3.And(z3.Not(was), c.result.t, k1.npo.t == k0.npo.t + 1)
    return [('C09-already-provisioned-means-nothing-changes', z3.Implies(was, z3.And(c.result.t, same_list(k1.av, k0.av), same_idle(k1.idle, k0.idle),
                                                                           k1.npo.t == k0.npo.t))),
            ('C09-no-more-reservations-than-partitions', z3.Implies(z3.And(z3.Not(was), k0.npo.t >= s.max_resources_split.t), z3.And(
                z3.Not(c.result.t), same_list(k1.av, k0.av), same_idle(k1.idle, k0.idle), k1.npo.t == k0.npo.t))),
            ('C09-never-below-the-minimum-size', z3.Implies(made, z3.ToReal(k0.av.n - k1.av.n) >= zminr(s.min_resource_per_workflow.t, z3.ToReal(k0.av.n)))),
            ('C09-a-refusal-changes-nothing', z3.Implies(z3.Not(c.result.t), z3.And(same_list(k1.av, k0.av), same_idle(k1.idle, k0.idle), k1.npo.t == k0.npo.t))),
            ('C09-busy-pools-untouched', z3.And(same_list(k1.ing, k0.ing), same_list(k1.occ, k0.occ)))]


REG.contract('BatchProcessing._provision_resources', world=BPW,
             params={'cluster': 'root:cluster', 'workflow_plan': 'WorkflowPlan'},
             requires=lambda c: [('partitions-positive', c.o.self.max_resources_split.t > 0),
                                 ('assume:split-is-whole-and-min-le-max', z3.Implies(c.o.self.resource_split.nk > 0, z3.And(
                                     z3.IsInt(split_of(c, c.o)[1]), split_of(c, c.o)[0] <= split_of(c, c.o)[1])))],
             ensures=_pr_ens, result='bool',
             raises={'RuntimeError': dict(when=None), 'KeyError': dict(when=None), 'IndexError': dict(when=None)},
             modifies=['cluster._resources.available', 'cluster._resources.idle', 'cluster.num_provisioned_obs'],
             props=['C09'])


# ================================================================================================ BatchProcessing.run
def finished(c, sv, cluster, p):
    k = CV(cluster)
    return z3.And(z3.Select(k.fin.keys, p), z3.Select(k.fin.vals, p))


def all_preds_finished(c, sv, cluster, graph, t):
    p = z3.Int('pq')
    return z3.ForAll([p], z3.Implies(EDGE(graph, p, t), finished(c, sv, cluster, p)))


def _alloc_facts(c, sv0, sv1, A, E, T, T0, graph):
    """what holds of every allocation added in this call (A: allocations now, E: the schedule passed in)"""
    st0 = lambda t: z3.Select(sv0.heap('Task', 'task_status'), t)
    new = lambda t: z3.And(z3.Select(A.keys, t), z3.Not(z3.Select(E.keys, t)))
    out = [('C03-every-new-allocation-has-all-predecessors-finished', Q([('t', I)], lambda t: z3.Implies(
        new(t), all_preds_finished(c, sv0, sv0.cluster, graph, t)))),
           ('C04-only-unscheduled-tasks-are-proposed', Q([('t', I)], lambda t: z3.Implies(new(t), st0(t) == TS('UNSCHEDULED')))),
           ('existing-proposals-kept', Q([('t', I)], lambda t: z3.Implies(z3.Select(E.keys, t), z3.And(
               z3.Select(A.keys, t), z3.Select(A.vals, t) == z3.Select(E.vals, t))))),
           ('proposals-name-objects', Q([('t', I)], lambda t: z3.Implies(new(t), z3.And(t > 0, z3.Select(A.vals, t) > 0))))]
    if T0 is not None:
        out += [('C09-C01-new-allocations-use-machines-of-the-free-list-read-at-the-start', Q([('t', I)], lambda t: z3.Implies(
            new(t), z3.Select(T0.cnt, z3.Select(A.vals, t)) > 0))),
                ('C01-a-machine-is-handed-out-once', Q([('t', I), ('u', I)], lambda t, u: z3.Implies(
                    z3.And(new(t), new(u), t != u), z3.Select(A.vals, t) != z3.Select(A.vals, u))))]
    if T is not None:
        out += [('handed-out-machines-left-the-free-list', Q([('t', I)], lambda t: z3.Implies(new(t), z3.Select(T.cnt, z3.Select(A.vals, t)) == 0))),
                ('free-list-only-shrinks', Q([('m', I)], lambda m: z3.And(z3.Select(T.cnt, m) >= 0, z3.Select(T.cnt, m) <= z3.Select(T0.cnt, m),
                                                                          z3.Select(T0.cnt, m) <= 1)))]
    return out


def _bp_loop1_inv(c):
    n, o = c.n, c.x['pre']
    A, E = n['allocations'], n['existing_schedule']
    T, T0 = n['temporary_resources'], o['temporary_resources']
    g = n.workflow_plan.graph.t
    out = _alloc_facts(c, o, n, A, E, T, T0, g)
    out.append(('pool-tasks-are-objects', Q([('t', I)], lambda t: z3.Implies(n.task_pool.count(t) > 0, t > 0))))
    return out


def _count_inv(c):
    n = c.n
    vis = c.x['visited']
    cnt = n['count'].t
    return [('count-bounded', z3.And(cnt >= 0, cnt <= z3.ToReal(vis.n))),
            ('C03-count-equals-visited-only-if-all-visited-finished', z3.Implies(cnt == z3.ToReal(vis.n), z3.ForAll(
                [z3.Int('pv')], z3.Implies(z3.Select(vis.cnt, z3.Int('pv')) > 0, finished(c, n, n.cluster, z3.Int('pv'))))))]


def _bp_ens(c):
    o, n = c.o, c.n
    k0, k1 = CV(o.cluster), CV(n.cluster)
    A, E = c.result[0], o.existing_schedule
    pid = o.workflow_plan.id.t
    g = o.workflow_plan.graph.t
    T0cnt = z3.If(k1.key(pid), z3.Select(k1.idle.vcnt, pid), z3.K(I, z3.IntVal(0)))
    st0 = lambda t: z3.Select(o.heap('Task', 'task_status'), t)
    new = lambda t: z3.And(z3.Select(A.keys, t), z3.Not(z3.Select(E.keys, t)))
    plan_empty = z3.Select(o.heap('WorkflowPlan', 'tasks.n'), o.workflow_plan.t) == 0
    return [('C03-every-new-allocation-has-all-predecessors-finished', Q([('t', I)], lambda t: z3.Implies(
        new(t), all_preds_finished(c, o, o.cluster, g, t)))),
            ('C04-only-unscheduled-tasks-are-proposed', Q([('t', I)], lambda t: z3.Implies(new(t), st0(t) == TS('UNSCHEDULED')))),
            ('C01-a-machine-is-handed-out-once', Q([('t', I), ('u', I)], lambda t, u: z3.Implies(
                z3.And(new(t), new(u), t != u), z3.Select(A.vals, t) != z3.Select(A.vals, u)))),
            ('C09-busy-pools-untouched', z3.And(same_list(k1.ing, k0.ing), same_list(k1.occ, k0.occ))),
            ('proposals-name-objects', Q([('t', I)], lambda t: z3.Implies(new(t), z3.And(t > 0, z3.Select(A.vals, t) > 0))))]


BP_MOD = ['cluster._resources.available', 'cluster._resources.idle', 'cluster.num_provisioned_obs', 'heap:WorkflowPlan.status',
          'arg:task_pool']

REG.contract('BatchProcessing.run', world=BPW,
             params={'cluster': 'root:cluster', 'clock': 'num', 'workflow_plan': 'WorkflowPlan',
                     'existing_schedule': 'dict:Task->ref:Machine', 'task_pool': 'set:Task'},
             requires=lambda c: [('partitions-positive', c.o.self.max_resources_split.t > 0),
                                 ('assume:split-is-whole-and-min-le-max', z3.Implies(c.o.self.resource_split.nk > 0, z3.And(
                                     z3.IsInt(split_of(c, c.o)[1]), split_of(c, c.o)[0] <= split_of(c, c.o)[1]))),
                                 ('pool-tasks-are-objects', Q([('t', I)], lambda t: z3.Implies(c.o.task_pool.count(t) > 0, t > 0))),
                                 ('assume:graph-nodes-are-task-objects', Q([('a', I), ('b', I)], lambda a, b: z3.Implies(
                                     EDGE(c.o.workflow_plan.graph.t, a, b), z3.And(a > 0, b > 0))))],
             ensures=_bp_ens, result='tuple:dict:Task->ref:Machine,enum:WorkflowStatus,set:Task',
             raises={'RuntimeError': dict(when=None, unchanged=False), 'KeyError': dict(when=None, unchanged=False),
                     'IndexError': dict(when=None, unchanged=False)},
             modifies=BP_MOD, props=['C03', 'C09', 'C01', 'C04', 'C10'])
REG.loop('BatchProcessing.run', 0, inv=lambda c: [('pool-tasks-are-objects', Q([('t', I)], lambda t: z3.Implies(c.n.task_pool.count(t) > 0, t > 0)))],
         modifies_locals=['task'], modifies=['task_pool'], props=['C03'])
REG.loop('BatchProcessing.run', 1, inv=_bp_loop1_inv,
         modifies_locals=['task', 'm', 'tduration', 'pred', 'count', 'p'],
         modifies=['allocations', 'temporary_resources', 'removed', 'added'], props=['C03', 'C09', 'C01'])
REG.loop('BatchProcessing.run', 2, inv=_count_inv, modifies_locals=['p', 'count'], props=['C03'])


# ================================================================================================ QueueProcessing.run
QPW = alg_world('QueueProcessing')
COMMON_PARAMS = {'cluster': 'root:cluster', 'clock': 'num', 'workflow_plan': 'WorkflowPlan',
                 'existing_schedule': 'dict:Task->ref:Machine', 'task_pool': 'set:Task'}


def _common_req(c):
    return [('pool-tasks-are-objects', Q([('t', I)], lambda t: z3.Implies(c.o.task_pool.count(t) > 0, t > 0))),
            ('assume:graph-nodes-are-task-objects', Q([('a', I), ('b', I)], lambda a, b: z3.Implies(
                EDGE(c.o.workflow_plan.graph.t, a, b), z3.And(a > 0, b > 0))))]


REG.contract('QueueProcessing.run', world=QPW, params=COMMON_PARAMS, requires=_common_req, ensures=_bp_ens,
             result='tuple:dict:Task->ref:Machine,enum:WorkflowStatus,set:Task',
             modifies=BP_MOD, props=['C03', 'C01', 'C04', 'C10'])
REG.loop('QueueProcessing.run', 0, inv=lambda c: [('pool-tasks-are-objects', Q([('t', I)], lambda t: z3.Implies(c.n.task_pool.count(t) > 0, t > 0)))],
         modifies_locals=['task'], modifies=['task_pool'], props=['C03'])
REG.loop('QueueProcessing.run', 1, inv=_bp_loop1_inv,
         modifies_locals=['task', 'm', 'tduration', 'pred', 'count', 'p'],
         modifies=['allocations', 'temporary_resources', 'removed', 'added'], props=['C03', 'C01'])
REG.loop('QueueProcessing.run', 2, inv=_count_inv, modifies_locals=['p', 'count'], props=['C03'])


# ================================================================================================ DynamicSchedulingFromPlan.run (C17)
DPW = alg_world('DynamicSchedulingFromPlan')


def planned_machine(c, sv, t):
    """the machine registered under the task's planned machine id"""
    mid = z3.Select(sv.heap('Task', 'allocated_machine_id'), t)
    return z3.Select(sv.cluster.machine_ids.vals, mid)


def _dp_loop1_inv(c):
    n, o = c.n, c.x['pre']
    A, E = n['allocations'], n['existing_schedule']
    new = lambda t: z3.And(z3.Select(A.keys, t), z3.Not(z3.Select(E.keys, t)))
    out = _bp_loop1_inv(c)
    out.append(('C17-every-new-allocation-is-on-the-planned-machine', Q([('t', I)], lambda t: z3.Implies(
        new(t), z3.Select(A.vals, t) == planned_machine(c, o, t)))))
    return out


def _dp_ens(c):
    o = c.o
    A, E = c.result[0], o.existing_schedule
    new = lambda t: z3.And(z3.Select(A.keys, t), z3.Not(z3.Select(E.keys, t)))
    return _bp_ens(c) + [('C17-every-new-allocation-is-on-the-planned-machine', Q([('t', I)], lambda t: z3.Implies(
        new(t), z3.Select(A.vals, t) == planned_machine(c, o, t))))]


REG.contract('DynamicSchedulingFromPlan.run', world=DPW, params=COMMON_PARAMS,
             requires=lambda c: _common_req(c) + [('assume:registered-machines-are-objects', Q([('k', I)], lambda k: z3.Implies(
                 z3.Select(c.o.cluster.machine_ids.keys, k), z3.Select(c.o.cluster.machine_ids.vals, k) > 0)))],
             ensures=_dp_ens, result='tuple:dict:Task->ref:Machine,enum:WorkflowStatus,set:Task',
             raises={'KeyError': dict(when=None, unchanged=False)},
             modifies=['heap:WorkflowPlan.status', 'arg:task_pool', 'self.accurate', 'self.alternate'], props=['C17', 'C03', 'C01', 'C04', 'C10'])
REG.loop('DynamicSchedulingFromPlan.run', 0, inv=lambda c: [('pool-tasks-are-objects', Q([('t', I)], lambda t: z3.Implies(c.n.task_pool.count(t) > 0, t > 0)))],
         modifies_locals=['task'], modifies=['task_pool'], props=['C03'])
REG.loop('DynamicSchedulingFromPlan.run', 1, inv=_dp_loop1_inv,
         modifies_locals=['task', 'machine', 'pred', 'count', 'p'],
         modifies=['allocations', 'temporary_resources', 'removed', 'added', 'self.accurate', 'heap:WorkflowPlan.status'],
         props=['C17', 'C03', 'C01'])
REG.loop('DynamicSchedulingFromPlan.run', 2, inv=_count_inv, modifies_locals=['p', 'count'], props=['C03'])


# ================================================================================================ GreedySchedulingFromPlan (C03, C01)
def GPW(eng):
    d = alg_world('GreedySchedulingFromPlan')(eng)
    # run() creates these two counters before it calls the helper (the helper is private to run)
    d['self'].fields['accurate'] = eng.fresh_of_type('num', 'greedy.accurate')
    d['self'].fields['alternate'] = eng.fresh_of_type('num', 'greedy.alternate')
    return d


def _ama_ens(c):
    o, n = c.o, c.n
    k = CV(o.cluster)
    m, t = o.machine.t, o.task.t
    A0, A1 = o.allocations, c.result[0]
    T0, T1 = o.temporary_resources, c.result[1]
    occupied = z3.Or(k.occ.count(m) > 0, k.ing.count(m) > 0)
    chosen = z3.Select(A1.vals, t)
    did = z3.Or(z3.Not(occupied), T0.n > 0)
    return [('result-is-the-updated-arguments', z3.And(A1.keys == n.allocations.keys, A1.vals == n.allocations.vals,
                                                       T1.cnt == n.temporary_resources.cnt, T1.n == n.temporary_resources.n)),
            ('C01-allocates-a-machine-of-the-free-list-and-removes-it', z3.Implies(did, z3.And(
                z3.Select(A1.keys, t), T0.count(chosen) > 0, z3.Implies(z3.Not(occupied), chosen == m),
                T1.cnt == z3.Store(T0.cnt, chosen, z3.Select(T0.cnt, chosen) - 1), T1.n == T0.n - 1,
                A1.keys == z3.Store(A0.keys, t, True), A1.vals == z3.Store(A0.vals, t, chosen)))),
            ('C17-busy-planned-machine-and-nothing-free-means-no-allocation', z3.Implies(z3.Not(did), z3.And(
                A1.keys == A0.keys, A1.vals == A0.vals, T1.cnt == T0.cnt, T1.n == T0.n)))]


REG.contract('GreedySchedulingFromPlan._attempt_machine_allocation', world=GPW,
             params={'cluster': 'root:cluster', 'machine': 'Machine', 'task': 'Task', 'allocations': 'dict:Task->ref:Machine',
                     'temporary_resources': 'list:Machine'},
             ensures=_ama_ens, result='tuple:dict:Task->ref:Machine,list:Machine',
             raises={'ValueError': dict(when=lambda c: z3.And(z3.Not(z3.Or(CV(c.o.cluster).occ.count(c.o.machine) > 0, CV(c.o.cluster).ing.count(c.o.machine) > 0)),
                                                              c.o.temporary_resources.count(c.o.machine) <= 0), unchanged=False)},
             modifies=['arg:allocations', 'arg:temporary_resources', 'self.alternate', 'self.accurate'], props=['C03', 'C01'])


def _greedy_facts(c, o, n, A, E, T, T0):
    k = CV(o.cluster)
    ids = o.heap('Task', 'id')
    st0 = lambda t: z3.Select(o.heap('Task', 'task_status'), t)
    predcnt = lambda t: z3.Select(o.heap('Task', 'pred.cnt', IntArr), t)
    new = lambda t: z3.And(z3.Select(A.keys, t), z3.Not(z3.Select(E.keys, t)))
    uw = z3.Int('uw')
    return [('C03-every-predecessor-id-of-a-new-allocation-is-the-id-of-a-task-in-the-finished-map', Q([('t', I), ('pid', I)], lambda t, pid: z3.Implies(
        z3.And(new(t), z3.Select(predcnt(t), pid) > 0), z3.Exists([uw], z3.And(k.fin.has(uw), z3.Select(ids, uw) == pid))))),
            ('C04-only-unscheduled-tasks-are-proposed', Q([('t', I)], lambda t: z3.Implies(new(t), st0(t) == TS('UNSCHEDULED')))),
            ('existing-proposals-kept-or-reassigned-only-for-unscheduled-tasks', Q([('t', I)], lambda t: z3.Implies(z3.Select(E.keys, t), z3.Select(A.keys, t)))),
            ('C01-new-allocations-use-machines-of-the-free-list-read-at-the-start', Q([('t', I)], lambda t: z3.Implies(
                new(t), z3.Select(T0.cnt, z3.Select(A.vals, t)) > 0))),
            ('free-list-only-shrinks', Q([('m', I)], lambda m: z3.And(z3.Select(T.cnt, m) >= 0, z3.Select(T.cnt, m) <= z3.Select(T0.cnt, m)))),
            ('proposals-name-objects-or-are-carried-over', Q([('t', I)], lambda t: z3.Implies(z3.Select(A.keys, t), z3.Or(
                z3.And(t > 0, z3.Select(A.vals, t) > 0), z3.And(z3.Select(E.keys, t), z3.Select(E.vals, t) == z3.Select(A.vals, t))))))]


def _greedy_inv(c):
    n, o = c.n, c.x['pre']
    return _greedy_facts(c, o, n, n['allocations'], n['existing_schedule'], n['temporary_resources'], o['temporary_resources'])


def _greedy_ens(c):
    o, n = c.o, c.n
    k = CV(o.cluster)
    A, E = c.result[0], o.existing_schedule
    ids = o.heap('Task', 'id')
    predcnt = lambda t: z3.Select(o.heap('Task', 'pred.cnt', IntArr), t)
    new = lambda t: z3.And(z3.Select(A.keys, t), z3.Not(z3.Select(E.keys, t)))
    uw = z3.Int('uw')
    return [('C03-every-predecessor-id-of-a-new-allocation-is-the-id-of-a-task-in-the-finished-map', Q([('t', I), ('pid', I)], lambda t, pid: z3.Implies(
        z3.And(new(t), z3.Select(predcnt(t), pid) > 0), z3.Exists([uw], z3.And(k.fin.has(uw), z3.Select(ids, uw) == pid))))),
            ('C04-only-unscheduled-tasks-are-proposed', Q([('t', I)], lambda t: z3.Implies(new(t), z3.Select(o.heap('Task', 'task_status'), t) == TS('UNSCHEDULED'))))]


REG.contract('GreedySchedulingFromPlan.run', world=GPW, params=COMMON_PARAMS,
             requires=lambda c: [('assume:registered-machines-are-objects', Q([('k', I)], lambda k: z3.Implies(
                 z3.Select(c.o.cluster.machine_ids.keys, k), z3.Select(c.o.cluster.machine_ids.vals, k) > 0)))],
             ensures=_greedy_ens, result='tuple:dict:Task->ref:Machine,enum:WorkflowStatus,set:Task',
             raises={'KeyError': dict(when=None, unchanged=False), 'ValueError': dict(when=None, unchanged=False)},
             modifies=['heap:WorkflowPlan.status', 'self.accurate', 'self.alternate'], props=['C03', 'C01', 'C04'],
             note="C03 for this algorithm is in terms of ids: 'finished' is the id set of the KEYS of the finished map; that those are finished "
                  "workflow tasks is the cluster invariant C03-only-ingest-tasks-are-recorded-unfinished plus unique task ids (assumed)")
REG.loop('GreedySchedulingFromPlan.run', 0, inv=_greedy_inv,
         modifies_locals=['task', 'machine', 'pred', 'finished', 'allocations', 'temporary_resources'],
         modifies=['self.accurate', 'self.alternate', 'heap:WorkflowPlan.status'], props=['C03', 'C01'])


# ================================================================================================ the shipped algorithms REFINE the abstract one
# The scheduler calls `self.algorithm.run(...)` and is verified against the abstract contract `Scheduling.run` (assumed: the 'programs'
# quantifier).  For the four algorithms that ship with topsim that contract is not taken on trust: each body is also verified against
# the abstract post-condition (`refines-Scheduling.run:*` obligations) and its declared frame must lie within the abstract frame
# (the algorithm object's own fields, which the scheduler never reads, excepted).  What remains assumed for them is only what the
# abstract contract does not promise either: their preconditions (see `requires`) and that they do not raise (S5: an exception aborts
# the run).
def refines_scheduling_run(qual, abstract='Scheduling.run'):
    cc, ac = REG.contracts[qual], REG.contracts[abstract]
    outside = [m for m in cc.modifies if m not in ac.modifies and not m.startswith('self.')]
    ens0 = cc.ensures

    def ens(c):
        out = list(ens0(c)) if ens0 else []
        k0, k1 = CV(c.o.cluster), CV(c.n.cluster)
        A, E = c.result[0], c.o.existing_schedule
        out += [(f'refines-{abstract}:frame-within-the-abstract-frame' + (''.join(' ' + m for m in outside)), z3.BoolVal(not outside)),
                (f'refines-{abstract}:busy-pools-untouched', z3.And(same_list(k1.ing, k0.ing), same_list(k1.occ, k0.occ))),
                (f'refines-{abstract}:task-maps-untouched', z3.And(same_list(k1.run, k0.run), k1.fin.keys == k0.fin.keys, k1.fin.vals == k0.fin.vals)),
                # abstract: every proposal names a task object and a machine object.  The schedule handed in is the scheduler's own
                # (what earlier calls returned, minus what was started), so: every proposal names objects or is carried over unchanged
                (f'refines-{abstract}:proposals-name-objects-or-are-carried-over', Q([('t', I)], lambda t: z3.Implies(
                    z3.Select(A.keys, t), z3.Or(z3.And(t > 0, z3.Select(A.vals, t) > 0),
                                                z3.And(z3.Select(E.keys, t), z3.Select(E.vals, t) == z3.Select(A.vals, t))))))]
        return out
    cc.ensures = ens


for _q in ('BatchProcessing.run', 'QueueProcessing.run', 'DynamicSchedulingFromPlan.run', 'GreedySchedulingFromPlan.run'):
    refines_scheduling_run(_q)
