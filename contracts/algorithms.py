"""Contracts for the in-tree scheduling algorithms topsim/user/schedule/*.py (C03, C09, C10, C17)."""
import z3
from pyvc.state import ObjV
from .base import *
from .cluster import CV, cluster_invariant, same_list, same_idle
from .deps import EDGE
from .task import TS

WS = lambda m: enum_code('WorkflowStatus', m)

REG.ctor_params['BatchProcessing'] = {'max_resource_partitions': 'int', 'min_resources_per_workflow': 'int',
                                      'resource_split': 'dict:str->pair:any,any'}
REG.ctor_params['QueueProcessing'] = {'max_resource_partitions': 'int', 'min_resources_per_workflow': 'int', 'resource_split': 'none'}
REG.ctor_params['DynamicSchedulingFromPlan'] = {}
REG.ctor_params['GreedySchedulingFromPlan'] = {}
REG.field_types.update({'BatchProcessing.max_resources_split': 'int', 'BatchProcessing.min_resource_per_workflow': 'int'})


def alg_world(cls):
    def w(eng):
        return {'self': eng.construct(cls), 'cluster': eng.construct('Cluster')}
    return w


BPW = alg_world('BatchProcessing')
FST = z3.Function('fst', I, I)
SND = z3.Function('snd', I, I)
NUM_OF = z3.Function('num_of', I, R)


def split_of(c, sv):
    """(min, max) of the per-observation split for this plan, as numbers"""
    d = sv.self.resource_split
    p = z3.Select(d.vals, sv.workflow_plan.id.t)
    return NUM_OF(FST(p)), NUM_OF(SND(p)), z3.Select(d.keys, sv.workflow_plan.id.t)


def _mrp_ens(c):
    s = c.o.self
    k = CV(c.o.cluster)
    avail = z3.ToReal(k.av.n)
    total = z3.ToReal(k.M.n)
    res = c.result.t
    has_split = s.resource_split.nk > 0
    mn, mx, _ = split_of(c, c.o)
    parts = s.max_resources_split.t
    allowed = ztrunc(total / parts)
    return [('C09-never-more-than-the-free-machines', res <= avail), ('nonneg', z3.Implies(z3.And(mx >= 0, parts > 0), res >= 0)),
            ('C09-without-split-at-most-floor-machines-over-partitions', z3.Implies(z3.Not(has_split), z3.And(
                res <= zmax(allowed, 0), res == z3.If(avail == 0, 0, z3.If(avail < allowed, avail, allowed))))),
            ('C09-with-split-within-the-observations-minimum-and-maximum-or-nothing', z3.Implies(has_split, z3.Or(
                res == 0, z3.And(res >= mn, res <= mx)))),
            ('whole-number-because-it-is-one-of-these', z3.Or(res == avail, res == mx, res == 0, res == allowed)),
            ('C09-with-split-exact', z3.Implies(has_split, res == z3.If(z3.Or(avail == 0, avail < mn), 0, zminr(avail, mx))))]


def zminr(a, b):
    return z3.If(a <= b, a, b)


REG.contract('BatchProcessing._max_resource_provision', world=BPW,
             params={'cluster': 'root:cluster', 'workflow_plan': 'WorkflowPlan'},
             requires=lambda c: [('partitions-positive', c.o.self.max_resources_split.t > 0),
                                 ('assume:split-is-whole-and-min-le-max', z3.Implies(c.o.self.resource_split.nk > 0, z3.And(
                                     z3.IsInt(split_of(c, c.o)[1]), split_of(c, c.o)[0] <= split_of(c, c.o)[1])))],
             ensures=_mrp_ens, result='int',
             raises={'RuntimeError': dict(when=lambda c: z3.And(c.o.self.resource_split.nk > 0, split_of(c, c.o)[0] > z3.ToReal(CV(c.o.cluster).M.n))),
                     'KeyError': dict(when=lambda c: z3.And(c.o.self.resource_split.nk > 0, z3.Not(split_of(c, c.o)[2])))},
             props=['C09'])


def _pr_ens(c):
    s = c.o.self
    k0, k1 = CV(c.o.cluster), CV(c.n.cluster)
    pid = c.o.workflow_plan.id.t
    was = k0.key(pid)
    made = z3.And(z3.Not(was), c.result.t, k1.npo.t == k0.npo.t + 1)
    return [('C09-already-provisioned-means-nothing-changes', z3.Implies(was, z3.And(c.result.t, same_list(k1.av, k0.av), same_idle(k1.idle, k0.idle),
                                                                           k1.npo.t == k0.npo.t))),
            ('C09-no-more-reservations-than-partitions', z3.Implies(z3.And(z3.Not(was), k0.npo.t >= s.max_resources_split.t), z3.And(
                z3.Not(c.result.t), same_list(k1.av, k0.av), same_idle(k1.idle, k0.idle), k1.npo.t == k0.npo.t))),
            ('C09-never-below-the-minimum-size', z3.Implies(made, z3.ToReal(k0.av.n - k1.av.n) >= zminr(s.min_resource_per_workflow.t, z3.ToReal(k0.av.n)))),
            ('C09-a-refusal-changes-nothing', z3.Implies(z3.Not(c.result.t), z3.And(same_list(k1.av, k0.av), same_idle(k1.idle, k0.idle), k1.npo.t == k0.npo.t))),
            ('C09-busy-pools-untouched', z3.And(same_list(k1.ing, k0.ing), same_list(k1.occ, k0.occ)))]


REG.contract('BatchProcessing._provision_resources', world=BPW,
             params={'cluster': 'root:cluster', 'workflow_plan': 'WorkflowPlan'},
             requires=lambda c: [('partitions-positive', c.o.self.max_resources_split.t > 0),
                                 ('assume:split-is-whole-and-min-le-max', z3.Implies(c.o.self.resource_split.nk > 0, z3.And(
                                     z3.IsInt(split_of(c, c.o)[1]), split_of(c, c.o)[0] <= split_of(c, c.o)[1])))],
             ensures=_pr_ens, result='bool',
             raises={'RuntimeError': dict(when=None), 'KeyError': dict(when=None), 'IndexError': dict(when=None)},
             modifies=['cluster._resources.available', 'cluster._resources.idle', 'cluster.num_provisioned_obs'],
             props=['C09'])
