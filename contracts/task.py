"""Contracts for topsim/core/task.py (C06, C03, C15)."""
import z3
from .base import *

TS = lambda m: enum_code('TaskStatus', m)


def rt(c, task, machine):
    """spec function of C06: max(floor(compute/speed), floor(data/bandwidth))"""
    return zmax(zfloor(task.flops.t / machine.cpu.t), zfloor(task.task_data.t / machine.bandwidth.t))


def machine_ok(m):
    return z3.And(m.cpu.t > 0, m.bandwidth.t > 0)


def task_ok(t):
    return z3.And(t.flops.t >= 0, t.task_data.t >= 0)


def entity_heap_invariant(sv):
    """Machines have positive speed and bandwidth; tasks have non-negative demands and durations.
    Established where the objects are created (parse_cluster_config, generate_plan, _generate_ingest_tasks) under the
    stated assumptions on the configuration; preserved by every function that writes these fields."""
    H = sv.heap
    x = ('x', I)
    return [('machine-speeds-positive', Q([x], lambda x: z3.And(z3.Select(H('Machine', 'cpu'), x) > 0,
                                                                 z3.Select(H('Machine', 'bandwidth'), x) > 0))),
            ('task-demands-nonneg', Q([x], lambda x: z3.And(z3.Select(H('Task', 'flops'), x) >= 0,
                                                            z3.Select(H('Task', 'task_data'), x) >= 0,
                                                            z3.Select(H('Task', 'duration'), x) >= 0)))]


def observation_heap_invariant(sv):
    """Observations live in buffer 0, have whole durations and (rounded) whole data rates, and hold no data before they start.
    Established by Observation.__init__ / parse_instrument_config (round) under the 'whole multiples' quantifier of C16."""
    H = sv.heap
    x = ('x', I)
    WAITING = enum_code('RunStatus', 'WAITING')
    return [('observation-shape', Q([x], lambda x: z3.And(
        z3.Select(H('Observation', 'buffer_id'), x) == 0,
        z3.Select(H('Observation', 'duration'), x) >= 0,
        z3.Implies(z3.Select(H('Observation', 'status'), x) == WAITING, z3.Select(H('Observation', 'total_data_size'), x) == 0))))
]


def plan_heap_invariant(sv):
    """the task list of a plan holds task objects"""
    tc = sv.heap('WorkflowPlan', 'tasks.cnt', IntArr)
    return [('plan-tasks-are-objects', Q([('p', I), ('t', I)], lambda p, t: z3.Implies(z3.Select(z3.Select(tc, p), t) > 0, t > 0)))]


REG.heap_invariants.append(entity_heap_invariant)
REG.heap_invariants.append(observation_heap_invariant)
REG.heap_invariants.append(plan_heap_invariant)


REG.contract('Task.calculate_runtime',
    params={'machine': 'Machine'},
    requires=lambda c: [('speeds-positive', machine_ok(c.o.machine)), ('demands-nonneg', task_ok(c.o.self))],
    ensures=lambda c: [('C06-formula', c.result.t == rt(c, c.o.self, c.o.machine)), ('nonneg', c.result.t >= 0)],
    result='num', props=['C06'])

# generate_delay is verified in contracts/delay.py; the caller-side contract lives there.

REG.contract('Task._calc_task_delay',
    params={},
    requires=lambda c: [('duration-nonneg', c.o.self.duration.t >= 0)],
    ensures=lambda c: [('only-lengthens', c.result.t >= c.o.self.duration.t),
                       ('no-model-no-delay', z3.Implies(c.o.self.delay.t == 0, c.result.t == c.o.self.duration.t))],
    result='num', props=['C06', 'C15'])


def arrival(c, sv, task, machine, p):
    """time (relative to now) at which predecessor p's output is available on `machine`"""
    aft = z3.Select(sv.heap('Task', 'aft'), p)
    pid = z3.Select(sv.heap('Task', 'id'), p)
    io = z3.Select(z3.Select(c.eng.heap_arr(sv._s, 'Task', 'io.vals', z3.ArraySort(I, R)), task.t), pid)
    return aft + io / machine.bandwidth.t - sv.now


def io_has(c, sv, task, p):
    pid = z3.Select(sv.heap('Task', 'id'), p)
    return z3.Select(z3.Select(c.eng.heap_arr(sv._s, 'Task', 'io.keys', BoolArr), task.t), pid)


def wait_requires(c):
    preds = c.o.predecessor_allocations
    return [('bandwidth-positive', c.o.machine.bandwidth.t > 0),
            ('assume:edge-volumes-known', Q([('p', I)], lambda p: z3.Implies(preds.count(p) > 0,
                                                                      z3.And(p > 0, io_has(c, c.o, c.o.self, p)))))]


def wait_ensures(c):
    preds = c.o.predecessor_allocations
    res = c.result.t
    return [('nonneg', res >= 0),
            ('covers-every-predecessor', Q([('p', I)], lambda p: z3.Implies(preds.count(p) > 0,
                                                                            res >= arrival(c, c.o, c.o.self, c.o.machine, p)))),
            ('is-exactly-the-last-arrival', z3.Or(res == 0, z3.Exists([z3.Int('w')], z3.And(
                preds.count(z3.Int('w')) > 0, res == arrival(c, c.o, c.o.self, c.o.machine, z3.Int('w'))))))]


REG.contract('Task._wait_for_transfer',
    params={'env': 'env', 'machine': 'Machine', 'predecessor_allocations': 'list:Task'},
    requires=wait_requires, ensures=wait_ensures, result='num', props=['C03'])


def wait_inv(c):
    vis = c.x['visited']
    mx = c.n['mx'].t
    o = c.o     # state at loop entry (nothing in the heap changes inside the loop)
    return [('mx-nonneg', mx >= 0),
            ('mx-covers-visited', Q([('p', I)], lambda p: z3.Implies(z3.Select(vis.cnt, p) > 0,
                                                                     mx >= arrival(c, o, o.self, o.machine, p)))),
            ('mx-attained', z3.Or(mx == 0, z3.Exists([z3.Int('w')], z3.And(
                z3.Select(vis.cnt, z3.Int('w')) > 0, mx == arrival(c, o, o.self, o.machine, z3.Int('w'))))))]


REG.loop('Task._wait_for_transfer', 0, inv=wait_inv, modifies_locals=['mx', 'task', 'transfer_time'], props=['C03'])


# ---- do_work: three yields ------------------------------------------------------------------------------
#  y0: wait for predecessors' data   y1: sub-step task (total_duration < 1)   y2: normal task
def dw_common(c, v):
    """facts established before the second/third yield and carried across it"""
    t, m = v.self, v.machine
    td = v['total_duration'].t
    return [('running', t.task_status.t == TS('RUNNING')),
            ('ast-is-yield-time', t.ast.t == v['_ytime'].t),
            ('runtime-formula', z3.Implies(z3.Or(t.flops.t > 0, t.task_data.t > 0), t.duration.t == rt(c, t, m))),
            ('delay-only-lengthens', td >= t.duration.t),
            ('no-model-no-delay', z3.Implies(t.delay.t == 0, td == t.duration.t)),
            ('machine-ok', machine_ok(m)), ('task-ok', task_ok(t))]


def dw_requires(c):
    return [('C04-task-is-scheduled-when-its-execution-starts', c.o.self.task_status.t == TS('SCHEDULED')),
            ('machine-ok', machine_ok(c.o.machine)), ('task-ok', task_ok(c.o.self)),
            ('duration-nonneg', c.o.self.duration.t >= 0)] + wait_requires(c)


def dw_ensures(c):
    t = c.n.self
    td = c.n['total_duration'].t
    return [('C06-finish-minus-start-is-runtime', t.aft.t - t.ast.t == zmax(1, td)),
            ('C06-runtime-formula', z3.Implies(z3.Or(t.flops.t > 0, t.task_data.t > 0), t.duration.t == rt(c, t, c.n.machine))),
            ('C06-delay-only-lengthens', td >= t.duration.t),
            ('C06-no-model-no-delay', z3.Implies(t.delay.t == 0, td == t.duration.t)),
            ('C06-aft-is-return-time-plus-one', t.aft.t == c.n.now + 1),
            ('C04-C02-task-stays-running-until-the-cluster-marks-it-finished',
             c.n.heap('Task', 'task_status') == z3.Store(c.o.heap('Task', 'task_status'), t.t, TS('RUNNING'))),
            ('C15-flag-when-delay-added', z3.Implies(t.duration.t < td, t.delay_flag.t)),
            ('C15-offset-accumulates', z3.Implies(t.duration.t < td,
                                                  t.delay_offset.t == c.o.self.delay_offset.t + (td - t.duration.t)))]


def dw_step(c):
    # what every segment leaves alone: the machine, the identity of the task, its demands
    out = []
    for f in ('flops', 'task_data', 'id', 'eft', 'est'):
        out.append((f'task-{f}-kept', getattr(c.n.self, f).t == getattr(c.o.self, f).t))
    if c.x['to'] in (1, 2):
        out.append(('C04-only-this-task-changes-status-and-it-becomes-running',
                    c.n.heap('Task', 'task_status') == z3.Store(c.o.heap('Task', 'task_status'), c.o.self.t, TS('RUNNING'))))
    if c.x['to'] == 0:
        # first yield: the wait is the transfer wait (C03): recorded start = allocation time + wait
        out.append(('C03-wait-nonneg', c.n['_ydelay'].t >= 0))
    return out


def dw_y0(c):
    v = c.n
    pa = v.predecessor_allocations
    return [('machine-ok', machine_ok(v.machine)), ('task-ok', task_ok(v.self)), ('duration-nonneg', v.self.duration.t >= 0),
            ('C03-wait-covers-every-cross-machine-predecessor', Q([('p', I)], lambda p: z3.Implies(
                pa.count(p) > 0, v['_ytime'].t + v['_ydelay'].t >=
                z3.Select(v.heap('Task', 'aft'), p) + z3.Select(z3.Select(c.eng.heap_arr(v._s, 'Task', 'io.vals', z3.ArraySort(I, R)), v.self.t),
                                                                z3.Select(v.heap('Task', 'id'), p)) / v.machine.bandwidth.t))),
            ('C03-wait-is-exactly-last-arrival-or-zero', z3.Or(v['_ydelay'].t == 0, z3.Exists([z3.Int('w')], z3.And(
                pa.count(z3.Int('w')) > 0, v['_ydelay'].t == arrival(c, v, v.self, v.machine, z3.Int('w'))))))]


REG.contract('Task.do_work',
    params={'env': 'env', 'machine': 'Machine', 'predecessor_allocations': 'list:Task'},
    locals_types={'total_duration': 'num'},
    requires=dw_requires,
    yields={0: dw_y0,
            1: lambda c: dw_common(c, c.n) + [('substep', c.n['total_duration'].t < 1), ('waits-zero', c.n['_ydelay'].t == 0)],
            2: lambda c: dw_common(c, c.n) + [('normal', c.n['total_duration'].t >= 1),
                                              ('waits-duration-minus-one', c.n['_ydelay'].t == c.n['total_duration'].t - 1)]},
    ensures=dw_ensures, step=dw_step,
    modifies=['heap:Task.task_status', 'heap:Task.ast', 'heap:Task.aft', 'heap:Task.duration', 'heap:Task.delay_flag',
              'heap:Task.delay_offset'],
    props=['C06', 'C03', 'C15', 'C01', 'C02', 'C04', 'C09'],
    note="predecessor_allocations=None is modelled as the empty list (only its truthiness and iteration are used)")
