"""Contracts for topsim/core/buffer.py (C18 tier moves, C07 conservation, C19 emptiness, C13 buffer events)."""
import z3
from pyvc.state import ObjV, Record
from .base import *
from . import config as _config

REG.ctor_params['HotBuffer'] = {'capacity': 'num', 'max_ingest_data_rate': 'num'}
REG.ctor_params['ColdBuffer'] = {'capacity': 'num', 'max_data_rate': 'num', 'env': 'env'}
REG.field_types.update({
    'HotBuffer.observations.stored': 'list:Observation', 'HotBuffer.observations.scheduled': 'list:Observation',
    'HotBuffer.observations.finished': 'list:Observation', 'HotBuffer.observations.transfer': 'ref:Observation',
    'HotBuffer.stored_observations': 'list:Observation',
    'ColdBuffer.observations.stored': 'list:Observation', 'ColdBuffer.observations.transfer': 'ref:Observation',
})
REG.contracts  # noqa
_config_c = REG.contracts['Config.parse_buffer_config']
_config_c.inline = True      # two constructor calls, no loop: callers (Buffer.__init__) execute it


def hot_inv(v, sv):
    return [('capacity-positive', v.total_capacity.t > 0), ('configured-rate-positive', v.max_ingest_data_rate.t > 0)]


def cold_inv(v, sv):
    return [('capacity-positive', v.total_capacity.t > 0), ('configured-rate-positive', v.max_data_rate.t > 0)]


REG.invariants['HotBuffer'] = hot_inv
REG.invariants['ColdBuffer'] = cold_inv


def _tier_init_ens(c):
    s = c.n.self
    return [('C07-starts-at-full-free-capacity', z3.And(s.total_capacity.t == c.o.capacity.t, s.current_capacity.t == c.o.capacity.t)),
            ('nothing-stored', s.observations['stored'].n == 0), ('no-transfer-in-progress', slot(s) == 0)]


# the tier constructors establish the tier invariants (given a positive configured capacity and rate)
REG.contract('HotBuffer.__init__', params={'capacity': 'num', 'max_ingest_data_rate': 'num'},
             requires=lambda c: [('assume:configured-capacity-and-rate-positive', z3.And(c.o.capacity.t > 0, c.o.max_ingest_data_rate.t > 0))],
             world=lambda eng: {'self': ObjV('HotBuffer', {}, 'HotBuffer')},
             ensures=lambda c: _tier_init_ens(c) + [('nothing-scheduled', z3.And(c.n.self.observations['scheduled'].n == 0,
                                                                               c.n.self.observations['finished'].n == 0))],
             invariants='post', modifies=['*'], props=['C07', 'C18', 'C19'])
REG.contract('ColdBuffer.__init__', params={'capacity': 'num', 'max_data_rate': 'num', 'env': 'env'},
             requires=lambda c: [('assume:configured-capacity-and-rate-positive', z3.And(c.o.capacity.t > 0, c.o.max_data_rate.t > 0))],
             world=lambda eng: {'self': ObjV('ColdBuffer', {}, 'ColdBuffer')},
             ensures=_tier_init_ens, invariants='post', modifies=['*'], props=['C07', 'C18', 'C19'])


def size_of(sv, ob):
    return z3.Select(sv.heap('Observation', 'total_data_size'), ob)


def slot(v):
    return v.observations['transfer'].t


def zminr(a, b):
    return z3.If(a <= b, a, b)


# ---------------------------------------------------------------------------------------------- capacity queries
def _has_cap(c):
    s = c.o.self
    tr = slot(s)
    pending = z3.If(tr != 0, size_of(c.o, tr), 0)
    return [('C18-room-for-size-plus-pending-transfer', c.result.t == (s.current_capacity.t - (c.o.observation_size.t + pending) >= 0))]


for _cls in ('HotBuffer', 'ColdBuffer'):
    REG.contract(f'{_cls}.has_capacity_for', params={'observation_size': 'num'}, ensures=_has_cap, result='bool',
                 props=['C18', 'C08', 'C07'])

# ---------------------------------------------------------------------------------------------- the four tier steps
def _send_ens(c):
    """transfer_observation: the sending tier frees min(rate, residual) (everything when rate < 0)"""
    o, n = c.o.self, c.n.self
    r, x, ob = c.o.transfer_rate.t, c.o.residual_data.t, c.o.observation.t
    moved = z3.If(r < 0, size_of(c.o, ob), zminr(r, x))
    return [('C18-frees-min-of-rate-and-residual', n.current_capacity.t == o.current_capacity.t + moved),
            ('C18-returns-what-is-left', c.result.t == x - moved),
            ('C18-slot-cleared-exactly-when-done', slot(n) == z3.If(c.result.t == 0, 0, z3.If(slot(o) == 0, ob, slot(o)))),
            ('stored-untouched', z3.And(n.observations['stored'].cnt == o.observations['stored'].cnt,
                                        n.observations['stored'].n == o.observations['stored'].n))]


def _send_req(c):
    return [('observation-given', c.o.observation.t > 0)]


for _cls in ('HotBuffer', 'ColdBuffer'):
    REG.contract(f'{_cls}.transfer_observation',
                 params={'observation': 'Observation', 'transfer_rate': 'num', 'residual_data': 'num'},
                 requires=_send_req, ensures=_send_ens, result='num',
                 modifies=['self.current_capacity', 'self.observations.transfer'], props=['C18', 'C07'])


def _recv_ens(rate_of):
    def ens(c):
        o, n = c.o.self, c.n.self
        x, ob = c.o.residual_data.t, c.o.observation.t
        r = rate_of(c)
        moved = z3.If(r > 0, zminr(r, x), size_of(c.o, ob))
        st_o, st_n = o.observations['stored'], n.observations['stored']
        done = c.result.t == 0
        return [('C18-takes-min-of-rate-and-residual', n.current_capacity.t == o.current_capacity.t - moved),
                ('C18-returns-what-is-left', c.result.t == x - moved),
                ('C18-slot-cleared-exactly-when-done', slot(n) == z3.If(done, 0, ob)),
                ('C18-stored-exactly-when-done', z3.If(done, z3.And(st_n.cnt == z3.Store(st_o.cnt, ob, z3.Select(st_o.cnt, ob) + 1),
                                                                    st_n.n == st_o.n + 1),
                                                       z3.And(st_n.cnt == st_o.cnt, st_n.n == st_o.n)))]
    return ens


REG.contract('ColdBuffer.receive_observation', params={'observation': 'Observation', 'residual_data': 'num', 'data_rate': 'num'},
             requires=_send_req, ensures=_recv_ens(lambda c: c.o.data_rate.t), result='num',
             note="the default data_rate=None (the tier's own rate) is not used by any in-tree caller and is not covered",
             modifies=['self.current_capacity', 'self.observations.transfer', 'self.observations.stored'], props=['C18', 'C07'])
REG.contract('HotBuffer.receive_observation', params={'observation': 'Observation', 'residual_data': 'num', 'data_rate': 'num'},
             requires=_send_req, ensures=_recv_ens(lambda c: c.o.data_rate.t), result='num',
             modifies=['self.current_capacity', 'self.observations.transfer', 'self.observations.stored'], props=['C18', 'C07'])


def _oft_ens(c):
    o, n = c.o.self, c.n.self
    st_o, st_n = o.observations['stored'], n.observations['stored']
    r = c.result.t
    return [('C18-pops-one-stored-observation', z3.And(st_o.count(r) > 0, st_n.cnt == z3.Store(st_o.cnt, r, z3.Select(st_o.cnt, r) - 1),
                                                       st_n.n == st_o.n - 1)),
            ('C18-puts-it-in-the-transfer-slot', slot(n) == r)]


for _cls in ('HotBuffer', 'ColdBuffer'):
    REG.contract(f'{_cls}.observation_for_transfer',
                 requires=lambda c: [('something-stored', c.o.self.observations['stored'].n > 0)],
                 ensures=_oft_ens, result='Observation',
                 modifies=['self.observations.stored', 'self.observations.transfer'], props=['C18', 'C07'])

# ---------------------------------------------------------------------------------------------- hot-buffer ingest / removal (C07)
def _pids_ens(c):
    o, n = c.o.self, c.n.self
    return [('C07-deposits-exactly-the-rate', n.current_capacity.t == o.current_capacity.t - c.o.incoming_datarate.t),
            ('returns-free-space', c.result.t == n.current_capacity.t)]


REG.contract('HotBuffer.process_incoming_data_stream', params={'incoming_datarate': 'int', 'time': 'num'},
             ensures=_pids_ens, result='num', modifies=['self.current_capacity'],
             raises={'ValueError': dict(when=lambda c: c.o.incoming_datarate.t > c.o.self.max_ingest_data_rate.t)},
             props=['C07'],
             note="C07 'ingest above the maximum rate is rejected': for whole-number rates int(rate) > max  <=>  rate > max")


def _remove_ens(c):
    o, n = c.o.self, c.n.self
    ob = c.o.observation.t
    sch_o, sch_n = o.observations['scheduled'], n.observations['scheduled']
    was = sch_o.count(ob) > 0
    return [('result-iff-was-scheduled', c.result.t == was),
            ('C07-frees-exactly-its-data', n.current_capacity.t == o.current_capacity.t + z3.If(was, size_of(c.o, ob), 0)),
            ('leaves-scheduled-once', z3.If(was, z3.And(sch_n.cnt == z3.Store(sch_o.cnt, ob, z3.Select(sch_o.cnt, ob) - 1), sch_n.n == sch_o.n - 1),
                                            z3.And(sch_n.cnt == sch_o.cnt, sch_n.n == sch_o.n)))]


REG.contract('HotBuffer.remove', params={'observation': 'Observation'}, ensures=_remove_ens, result='bool',
             modifies=['self.current_capacity', 'self.observations.finished', 'self.observations.scheduled'], props=['C07', 'C04', 'C12'])

REG.contract('HotBuffer.has_stored_observations',
             ensures=lambda c: [('exact', c.result.t == (c.o.self.observations['stored'].n > 0))], result='bool', props=['C04'])


def _nofp_ens(c):
    o, n = c.o.self, c.n.self
    st_o, st_n = o.observations['stored'], n.observations['stored']
    sc_o, sc_n = o.observations['scheduled'], n.observations['scheduled']
    r = c.result.t
    some = st_o.n > 0
    return [('C04-moves-one-observation-stored-to-scheduled', z3.Implies(some, z3.And(
        st_o.count(r) > 0, st_n.cnt == z3.Store(st_o.cnt, r, z3.Select(st_o.cnt, r) - 1), st_n.n == st_o.n - 1,
        sc_n.cnt == z3.Store(sc_o.cnt, r, z3.Select(sc_o.cnt, r) + 1), sc_n.n == sc_o.n + 1))),
            ('nothing-stored-nothing-happens', z3.Implies(z3.Not(some), z3.And(r == 0, st_n.cnt == st_o.cnt, st_n.n == st_o.n,
                                                                           sc_n.cnt == sc_o.cnt, sc_n.n == sc_o.n)))]


REG.contract('HotBuffer.next_observation_for_processing', ensures=_nofp_ens, result='ref:Observation',
             modifies=['self.observations.stored', 'self.observations.scheduled'], props=['C04'])


# ================================================================================================ Buffer (the actor)
from .world import world_of, event_code, EVENT   # noqa: E402

BW = world_of('buffer')
RS = lambda m: enum_code('RunStatus', m)


def hot(v):
    return v.hot[0]


def cold(v):
    return v.cold[0]


def buffer_inv(v, sv):
    return [('threshold-is-60-percent', z3.BoolVal(v.threshold.val == 0.6))] + events_inv('buffer')(v, sv)


REG.invariants['Buffer'] = buffer_inv
REG.zero_at_init['Buffer'] = [('unlogged_buffer', 'int')]


def _buf_init_req(c):
    b = c.o.config.buffer
    return [('assume:configured-capacities-and-rates-positive', z3.And(
        b['hot']['capacity'].t > 0, b['hot']['max_ingest_rate'].t > 0, b['cold']['capacity'].t > 0, b['cold']['max_data_rate'].t > 0,
        _config.mult(c.o.config.timestep_unit.t) > 0))]


# Buffer.__init__ establishes the invariants of the actor and of both tiers from a well-formed configuration
REG.contract('Buffer.__init__', params={'env': 'env', 'cluster': 'any', 'config': 'obj:Config', 'planner': 'any'},
             requires=_buf_init_req,
             world=lambda eng: {'self': ObjV('Buffer', {}, 'Buffer')},
             ensures=lambda c: [('C19-both-tiers-full-free', z3.And(hot(c.n.self).current_capacity.t == hot(c.n.self).total_capacity.t,
                                                                   cold(c.n.self).current_capacity.t == cold(c.n.self).total_capacity.t)),
                                ('C13-no-events', c.n.self.events.n == 0), ('nothing-left-to-transfer', c.n.self._data_left_to_transfer.t == 0)],
             invariants='post', modifies=['*'], props=['C07', 'C19', 'C13'])


def obs_ok(sv, ob):
    """Observation invariant established by Observation.__init__ and never changed: it lives in buffer 0"""
    return z3.Select(sv.heap('Observation', 'buffer_id'), ob) == 0


def unlogged(sv, actor):
    """ghost: number of records in the actor's event list that the monitor has not collated yet (C13 conservation)"""
    return sv.ghost('unlogged_' + actor)


def _add_event_ens(actor):
    def ens(c):
        ev = c.o.self.events
        code = EVENT(c.o.now, z3.IntVal(STRINGS.intern(actor)), c.o.observation.name.t, c.o.event.t, c.o.resource.t)
        return [('C13-one-record-stamped-with-current-time', z3.And(
            c.n.self.events.cnt == z3.Store(ev.cnt, code, z3.Select(ev.cnt, code) + 1), c.n.self.events.n == ev.n + 1)),
                ('C13-counted-as-not-yet-logged', unlogged(c.n, actor) == unlogged(c.o, actor) + 1)]
    return ens


def _add_event_ghost(actor):
    def g(eng, vals):
        nm = 'unlogged_' + actor
        if nm not in eng.st.ghost:
            eng.st.ghost[nm] = z3.Int('ghost0_' + nm)
        eng.st.ghost[nm] = eng.st.ghost[nm] + 1
    return g


def events_inv(actor):
    def inv(v, sv):
        u = unlogged(sv, actor)
        return [('C13-every-unlogged-record-is-still-in-the-list', z3.And(u >= 0, u <= v.events.n))]
    return inv


REG.contract('Buffer._add_event', world=BW, params={'observation': 'Observation', 'resource': 'str', 'event': 'str'},
             ensures=_add_event_ens('buffer'), ghost=_add_event_ghost('buffer'), modifies=['self.events', 'ghost:unlogged_buffer'],
             props=['C13'])

REG.contract('Buffer.is_empty', world=BW,
             ensures=lambda c: [('C19-empty-iff-both-tiers-full-free', c.result.t == z3.And(
                 hot(c.o.self).total_capacity.t == hot(c.o.self).current_capacity.t,
                 cold(c.o.self).total_capacity.t == cold(c.o.self).current_capacity.t))],
             result='bool', props=['C19', 'C04'])


def used_fraction(v):
    h = hot(v)
    return (h.total_capacity.t - h.current_capacity.t) / h.total_capacity.t


REG.contract('Buffer.check_buffer_over_data_threshold', world=BW, fix={'b': 0},
             ensures=lambda c: [('exact', c.result.t == (used_fraction(c.o.self) > z3.RealVal('0.6')))], result='bool', props=['C04'])


def _cbc_size(c):
    ob = c.o.observation
    return ob.ingest_data_rate.t * ob.duration.t


def _cbc_ens(c):
    s = c.o.self
    size = _cbc_size(c)
    tr = slot(cold(s))
    cold_pending = z3.If(tr != 0, size_of(c.o, tr), 0)
    return [('C08-true-iff-both-tiers-have-room-for-the-whole-volume', c.result.t == z3.And(
        hot(s).current_capacity.t - size >= 0, cold(s).current_capacity.t - (size + cold_pending) >= 0))]


REG.contract('Buffer.check_buffer_capacity', world=BW, params={'observation': 'Observation'},
             requires=lambda c: [('observation-in-buffer-0', obs_ok(c.o, c.o.observation.t))],
             ensures=_cbc_ens, result='bool',
             raises={'RuntimeError': dict(when=lambda c: z3.Or(c.o.observation.duration.t < 1,
                                                               hot(c.o.self).total_capacity.t <= _cbc_size(c)))},
             props=['C08', 'C07'])


def _mof_ens(c):
    o, n = c.o.self, c.n.self
    ob = c.o.observation.t
    was = hot(o).observations['scheduled'].count(ob) > 0
    code = EVENT(c.o.now, z3.IntVal(STRINGS.intern('buffer')), c.o.observation.name.t, z3.IntVal(STRINGS.intern('removed')),
                 z3.IntVal(STRINGS.intern('buffer')))
    return [('result-iff-was-scheduled', c.result.t == was),
            ('C07-frees-exactly-its-data', hot(n).current_capacity.t == hot(o).current_capacity.t + z3.If(was, size_of(c.o, ob), 0)),
            ('C13-buffer-removed-event', z3.And(n.events.cnt == z3.Store(o.events.cnt, code, z3.Select(o.events.cnt, code) + 1),
                                                n.events.n == o.events.n + 1))]


REG.contract('Buffer.mark_observation_finished', world=BW, params={'observation': 'Observation'},
             requires=lambda c: [('observation-in-buffer-0', obs_ok(c.o, c.o.observation.t))],
             ensures=_mof_ens, result='bool',
             modifies=['self.events', 'ghost:unlogged_buffer', 'self.hot.0.current_capacity', 'self.hot.0.observations.finished', 'self.hot.0.observations.scheduled'],
             props=['C07', 'C13', 'C04'])

REG.contract('Buffer.has_observations_ready_for_processing', world=BW,
             ensures=lambda c: [('C04-ready-iff-stored-and-under-threshold', c.result.t == z3.And(
                 hot(c.o.self).observations['stored'].n > 0, z3.Not(used_fraction(c.o.self) > z3.RealVal('0.6'))))],
             result='bool', props=['C04'])


def _to_df_ens(c):
    s = c.o.self
    r = c.result
    return [('C12-hot-free-space', r['hot_buffer'].t == hot(s).current_capacity.t),
            ('C12-cold-free-space', r['cold_buffer'].t == cold(s).current_capacity.t),
            ('C12-stored-count', r['stored'].t == z3.ToReal(cold(s).observations['stored'].n + hot(s).observations['stored'].n))]


REG.contract('Buffer.to_df', world=BW, ensures=_to_df_ens, props=['C12'], result='frame:hot_buffer=num;cold_buffer=num;stored=num')


# ---- ingest_data_stream: one deposit of exactly the rate per timestep, `duration` of them (C07)
def _ids_y0(c):
    v = c.n
    ob = v.observation
    return [('b-is-buffer-0', v['b'].t == 0), ('time-left-nonneg', v['time_left'].t >= 0), ('time-left-whole', z3.IsInt(v['time_left'].t)),
            ('C07-deposited-so-far', ob.total_data_size.t == ob.ingest_data_rate.t * (ob.duration.t - 1 - v['time_left'].t)),
            ('observation-in-buffer-0', obs_ok(v, ob.t)), ('rate-whole', z3.IsInt(ob.ingest_data_rate.t)),
            ('one-step-wait', v['_ydelay'].t == 1)]


def _ids_step(c):
    o, n = c.o, c.n
    ob = o.observation
    out = []
    to = c.x['to']
    deposited = hot(n.self).current_capacity.t == hot(o.self).current_capacity.t - ob.ingest_data_rate.t
    if to == 0:
        out.append(('C07-one-deposit-of-exactly-the-rate', deposited))
    if to == 'return':
        st_o, st_n = hot(o.self).observations['stored'], hot(n.self).observations['stored']
        stored = st_n.n == st_o.n + 1
        out.append(('C07-stored-only-after-rate-times-duration', z3.Implies(stored, z3.And(
            deposited, n.observation.total_data_size.t == ob.ingest_data_rate.t * ob.duration.t,
            st_n.cnt == z3.Store(st_o.cnt, ob.t, z3.Select(st_o.cnt, ob.t) + 1)))))
        out.append(('no-deposit-without-running', z3.Implies(z3.Not(stored), z3.And(
            hot(n.self).current_capacity.t == hot(o.self).current_capacity.t, st_n.n == st_o.n))))
    return out


REG.contract('Buffer.ingest_data_stream', world=BW, params={'observation': 'Observation'},
             locals_types={'b': 'num', 'time_left': 'num'},
             requires=lambda c: [('observation-in-buffer-0', obs_ok(c.o, c.o.observation.t)),
                                 ('duration-whole-and-positive', z3.And(z3.IsInt(c.o.observation.duration.t), c.o.observation.duration.t >= 1)),
                                 ('rate-whole', z3.IsInt(c.o.observation.ingest_data_rate.t)),
                                 ('nothing-deposited-yet', c.o.observation.total_data_size.t == 0)],
             yields={0: _ids_y0}, step=_ids_step,
             raises={'RuntimeError': dict(when=lambda c: c.o.observation.status.t == RS('WAITING')),
                     'ValueError': dict(when=lambda c: c.o.observation.ingest_data_rate.t > hot(c.o.self).max_ingest_data_rate.t, unchanged=False, exact=False)},
             modifies=['self.events', 'ghost:unlogged_buffer', 'self.hot.0.current_capacity', 'self.hot.0.observations.stored', 'self.waiting_observation_list',
                       'self.stored_times', 'heap:Observation.total_data_size'],
             props=['C07', 'C13', 'C12', 'C04'])


# ---- tier moves (C18) ------------------------------------------------------------------------------------------------
def rates_inv(v, sv):
    return [('capacity-positive', v.total_capacity.t > 0)]


def slower_rate(s):
    return zminr(hot(s).max_ingest_data_rate.t, cold(s).max_data_rate.t)


def _move_req(src_tier):
    def req(c):
        s = c.o.self
        return [('assume:no-other-move-in-progress', z3.And(slot(hot(s)) == 0, slot(cold(s)) == 0)),
                ('stored-observations-are-objects', Q([('o', I)], lambda o: z3.Implies(
                    src_tier(s).observations['stored'].count(o) > 0, o > 0)))]
    return req


def _move_y0(src_tier, dst_tier):
    def y(c):
        v = c.n
        s = v.self
        ob = v['current_obs'].t
        x = v['data_left_to_transfer'].t
        return [('moving-an-observation', ob > 0), ('one-step-wait', v['_ydelay'].t == 1),
                ('rates-positive', z3.And(hot(s).max_ingest_data_rate.t > 0, cold(s).max_data_rate.t > 0)),
                ('residual-nonneg', x >= 0),
                ('C18-slots-hold-the-observation-until-done', z3.And(slot(src_tier(s)) == z3.If(x == 0, 0, ob),
                                                                     slot(dst_tier(s)) == z3.If(x == 0, 0, ob))),
                ('pbar-off', z3.BoolVal(v['pbar'].val is None))]
    return y


def _move_step(src_tier, dst_tier, direction):
    def step(c):
        o, n = c.o, c.n
        s0, s1 = o.self, n.self
        frm, to = c.x['frm'], c.x['to']
        out = []
        if to == 0:
            ob = n['current_obs'].t
            x0 = size_of(o, ob) if frm == -1 else o['data_left_to_transfer'].t
            x1 = n['data_left_to_transfer'].t
            d = zminr(slower_rate(s0), x0)
            dsrc = src_tier(s1).current_capacity.t - src_tier(s0).current_capacity.t
            ddst = dst_tier(s1).current_capacity.t - dst_tier(s0).current_capacity.t
            out += [('C18-what-leaves-one-tier-enters-the-other', dsrc + ddst == 0),
                    ('C18-moves-at-the-slower-of-the-two-rates', z3.And(dsrc == d, x1 == x0 - d)),
                    ('C18-residual-decreases', z3.And(x1 < x0, x1 >= 0))]
            st0, st1 = dst_tier(s0).observations['stored'], dst_tier(s1).observations['stored']
            out.append(('C18-stored-in-destination-exactly-when-complete', z3.If(
                x1 == 0, z3.And(st1.cnt == z3.Store(st0.cnt, ob, z3.Select(st0.cnt, ob) + 1), st1.n == st0.n + 1),
                z3.And(st1.cnt == st0.cnt, st1.n == st0.n))))
            if frm == -1:
                sr0, sr1 = src_tier(s0).observations['stored'], src_tier(s1).observations['stored']
                out.append(('C18-leaves-the-source-list-once', z3.And(sr0.count(ob) > 0, sr1.cnt == z3.Store(sr0.cnt, ob, z3.Select(sr0.cnt, ob) - 1),
                                                                      sr1.n == sr0.n - 1)))
        if to == 'return':
            res = c.result.val
            if frm == -1:
                # either refused (False) or nothing to move (size <= 0)
                same = z3.And(src_tier(s1).current_capacity.t == src_tier(s0).current_capacity.t,
                              dst_tier(s1).current_capacity.t == dst_tier(s0).current_capacity.t,
                              src_tier(s1).observations['stored'].cnt == src_tier(s0).observations['stored'].cnt,
                              src_tier(s1).observations['stored'].n == src_tier(s0).observations['stored'].n,
                              dst_tier(s1).observations['stored'].cnt == dst_tier(s0).observations['stored'].cnt,
                              slot(src_tier(s1)) == slot(src_tier(s0)), slot(dst_tier(s1)) == slot(dst_tier(s0)),
                              s1._data_left_to_transfer.t == s0._data_left_to_transfer.t,
                              s1.events.cnt == s0.events.cnt)
                if res is False:
                    out.append(('C18-refused-move-leaves-everything-as-it-was', same))
                else:
                    out.append(('C18-zero-size-move-leaves-everything-as-it-was', same))
            else:
                out.append(('C18-completes-only-when-nothing-is-left', o['data_left_to_transfer'].t == 0))
                out.append(('C18-last-segment-moves-nothing', z3.And(
                    src_tier(s1).current_capacity.t == src_tier(s0).current_capacity.t,
                    dst_tier(s1).current_capacity.t == dst_tier(s0).current_capacity.t)))
        return out
    return step


def _move_contract(name, src_tier, dst_tier, direction):
    REG.contract(f'Buffer.{name}', world=BW, fix={'b': 0},
                 locals_types={'current_obs': 'Observation', 'data_left_to_transfer': 'num', '_total_data': 'num', 'pbar': 'none',
                               '_tqdm': 'bool'},
                 requires=_move_req(src_tier), yields={0: _move_y0(src_tier, dst_tier)}, step=_move_step(src_tier, dst_tier, direction),
                 raises={'RuntimeError': dict(when=lambda c: src_tier(c.o.self).observations['stored'].n == 0)},
                 modifies=['self.events', 'ghost:unlogged_buffer', 'self._data_left_to_transfer', 'self.hot.0.current_capacity', 'self.cold.0.current_capacity',
                           'self.hot.0.observations.stored', 'self.cold.0.observations.stored', 'self.hot.0.observations.transfer',
                           'self.cold.0.observations.transfer'],
                 props=['C18', 'C07'])


_move_contract('move_hot_to_cold', hot, cold, 'h2c')
_move_contract('move_cold_to_hot', cold, hot, 'c2h')


def _lemma_ceil_steps():
    # k steps of min(r, residual) exhaust `size` exactly when k = ceil(size / r):  (k-1)*r < size <= k*r
    size, r, k = z3.Reals('size r k')
    resid_before_last = size - (k - 1) * r          # residual before the k-th step (all earlier steps moved r)
    resid_after = resid_before_last - zminr(r, resid_before_last)
    return [r > 0, size > 0, z3.IsInt(k), k >= 1, resid_before_last > 0, resid_after == 0], \
        z3.And((k - 1) * r < size, size <= k * r)


REG.lemmas.append(('C18-move-completes-after-ceil-size-over-rate-steps', ['C18'], _lemma_ceil_steps))


# ---- Buffer.run: the per-timestep tiering loop ----------------------------------------------------------------------
def _run_y0(c):
    return [('one-step-wait', c.n['_ydelay'].t == 1)]


REG.contract('Buffer.run', world=BW, yields={0: _run_y0},
             requires=lambda c: [('stored-observations-are-objects', Q([('o', I)], lambda o: z3.Implies(z3.Or(
                 hot(c.o.self).observations['stored'].count(o) > 0, cold(c.o.self).observations['stored'].count(o) > 0), o > 0)))],
             modifies=['self.events', 'ghost:unlogged_buffer'], props=['C07', 'C13'],
             note="the moves it spawns are verified separately (Buffer.move_hot_to_cold / move_cold_to_hot)")

REG.contract('Buffer.project_buffer_capacity', world=BW, params={'obs': 'Observation'}, fix={'b': 0},
             ensures=lambda c: [('exact', c.result.t == ((hot(c.o.self).total_capacity.t - hot(c.o.self).current_capacity.t
                                                          + c.o.obs.total_data_size.t) / hot(c.o.self).total_capacity.t < z3.RealVal('0.6')))],
             result='bool', props=['C07'])


# ---- rely / guarantee: what a suspended ingest stream knows (C07) --------------------------------------------------------------
from pyvc.spec import Carried   # noqa: E402
from pyvc.state import ObjV as _ObjV2   # noqa: E402


def _has_buffer(names):
    def rec(v, seen):
        if isinstance(v, _ObjV2):
            if id(v) in seen:
                return False
            seen.add(id(v))
            return v.cls == 'Buffer' or any(rec(x, seen) for x in v.fields.values())
        return False
    return any(rec(v, set()) for v in names.values())


def _deposited_so_far(sv, p, names):
    if not _has_buffer(names):
        return None
    o = p['fo'].t
    H = lambda f: z3.Select(sv.heap('Observation', f), o)
    return z3.And(p['ftl'].t >= 0, H('total_data_size') == H('ingest_data_rate') * (H('duration') - 1 - p['ftl'].t))


def _other_stream(sv, p, names, qual, frm):
    if qual == 'Buffer.ingest_data_stream' and 'observation' in names:
        return names['observation'].t != p['fo'].t        # one ingest stream per observation (RunStatus leaves WAITING once)
    return None


REG.carried.append(Carried('C07-a-suspended-ingest-stream-keeps-its-deposit-count', 'Buffer.ingest_data_stream',
                           {'fo': 'Observation', 'ftl': 'num'}, _deposited_so_far, _other_stream, props=['C07']))
