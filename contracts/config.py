"""Contracts for topsim/core/config.py (C16): the three timestep-multiplier ladders and what they scale."""
import z3
from pyvc.state import ObjV, Record, Opaque, ListObj, DictObj, fresh_name
from .base import *

# JSON objects of the configuration file, modelled as heap entities (obj['key'] reads the field `key`)
REG.entities['MachineSpec'] = dict(flops='num', compute_bandwidth='num')
REG.entities['PipelineSpec'] = dict(workflow='str', ingest_demand='int')
REG.entities['ObsSpec'] = {
    'name': 'str', 'start': 'num', 'duration': 'num', 'instrument_demand': 'num', 'data_product_rate': 'num',
    'min_workflow_resources': 'num', 'max_workflow_resources': 'num',
    'has:min_workflow_resources': 'bool', 'has:max_workflow_resources': 'bool'}


def config_world(eng):
    """a Config object as Config.__init__ leaves it (file I/O is trusted; the parsed JSON is arbitrary)"""
    f = eng.fresh_of_type
    cfg = ObjV('Config', {
        'path': Opaque('path'),
        'timestep_unit': f('any', 'cfg.timestep_unit'),
        'cluster': Record({'system': Record({'resources': f('dict:str->ref:MachineSpec', 'cfg.resources'),
                                             'system_bandwidth': f('num', 'cfg.system_bandwidth')})}),
        'instrument': Record({'telescope': Record({
            'total_arrays': f('num', 'cfg.total_arrays'),
            'pipelines': f('dict:str->ref:PipelineSpec', 'cfg.pipelines'),
            'observations': f('list:ObsSpec', 'cfg.observations'),
            'max_ingest_resources': f('num', 'cfg.max_ingest_resources')})}),
        'buffer': Record({'hot': Record({'capacity': f('num', 'cfg.hot.capacity'), 'max_ingest_rate': f('num', 'cfg.hot.rate')}),
                          'cold': Record({'capacity': f('num', 'cfg.cold.capacity'), 'max_data_rate': f('num', 'cfg.cold.rate')})}),
    }, label='config')
    return {'self': cfg}


def mult(u):
    """spec function of C16: the timestep multiplier of a unit"""
    minutes = z3.IntVal(STRINGS.intern('minutes'))
    hours = z3.IntVal(STRINGS.intern('hours'))
    return z3.If(u == minutes, z3.RealVal(60), z3.If(u == hours, z3.RealVal(3600),
                 z3.If(z3.Function('is_pyint', I, B)(u), z3.Function('num_of', I, R)(u), z3.RealVal(1))))


def unit(c):
    return c.o.self.timestep_unit.t


def well_formed_json(c):
    """values of the machine map / pipeline map are JSON objects (non-null)"""
    res = c.o.self.cluster['system']['resources']
    pl = c.o.self.instrument['telescope']['pipelines']
    obs = c.o.self.instrument['telescope']['observations']
    return [('machine-specs-are-objects', Q([('k', I)], lambda k: z3.Implies(z3.Select(res.keys, k), z3.Select(res.vals, k) > 0))),
            ('pipeline-specs-are-objects', Q([('k', I)], lambda k: z3.Implies(z3.Select(pl.keys, k), z3.Select(pl.vals, k) > 0))),
            ('observation-specs-are-objects', Q([('o', I)], lambda o: z3.Implies(obs.count(o) > 0, o > 0)))]


def positive_speeds(c):
    """ASSUMPTION ON THE INPUT: configured machine speeds and bandwidths are positive, the timestep factor is positive"""
    res = c.o.self.cluster['system']['resources']
    H = lambda f, k: z3.Select(c.o.heap('MachineSpec', f), z3.Select(res.vals, k))
    return [('configured-speeds-positive', Q([('k', I)], lambda k: z3.Implies(z3.Select(res.keys, k), z3.And(
        H('flops', k) > 0, H('compute_bandwidth', k) > 0)))),
            ('timestep-factor-positive', mult(unit(c)) > 0)]


# ---- cluster section ------------------------------------------------------------------------------------------
def cluster_body(c):
    n = c.n
    m = n['machine']          # the key
    spec = z3.Select(n.self.cluster['system']['resources'].vals, m.t)
    new = c.x['last_new']
    mu = mult(n.self.timestep_unit.t)
    H = lambda f: z3.Select(n.heap('Machine', f), new)
    S = lambda f: z3.Select(c.o.heap('MachineSpec', f), spec)
    return [('C16-multiplier-is-spec', n['timestep_multiplier'].num == mu),
            ('C16-cpu-scaled', H('cpu') == S('flops') * mu),
            ('C16-bandwidth-scaled', H('bandwidth') == S('compute_bandwidth') * mu),
            ('C16-memory-disk-unscaled', z3.And(H('memory') == 1, H('disk') == 1)),
            ('machine-id-is-key', H('id') == m.t)]


def cluster_inv(c):
    n = c.n
    ml = n['machine_list']
    alloc = c.eng.alloc()
    return [('one-machine-per-visited-key', ml.n == c.x['visited'].n),
            ('machines-distinct-and-allocated', Q([('m', I)], lambda m: z3.And(ml.count(m) <= 1, z3.Implies(ml.count(m) > 0, z3.And(m > 0, z3.Select(alloc, m)))))),
            ('multiplier-fixed', n['timestep_multiplier'].num == mult(n.self.timestep_unit.t))]


REG.contract('Config.parse_cluster_config', world=config_world, params={},
    requires=lambda c: well_formed_json(c) + positive_speeds(c),
    ensures=lambda c: [('one-machine-per-entry', c.result[0].n == c.o.self.cluster['system']['resources'].nk),
                       ('machines-distinct', Q([('m', I)], lambda m: z3.And(c.result[0].count(m) <= 1, z3.Implies(c.result[0].count(m) > 0, m > 0)))),
                       ('C16-system-bandwidth-scaled', c.result[1].t == c.o.self.cluster['system']['system_bandwidth'].t * mult(unit(c)))],
    raises={'KeyError': dict(when=None, unchanged=False)},
    modifies=['heap:Machine.id', 'heap:Machine.cpu', 'heap:Machine.memory', 'heap:Machine.disk', 'heap:Machine.bandwidth',
              'heap:Machine.status', 'heap:Machine.transfer_flag', 'heap:Machine.current_task'],
    result='tuple:list:Machine,num', props=['C16', 'C02'])
REG.loop('Config.parse_cluster_config', 0, inv=cluster_inv, body=cluster_body,
         modifies_locals=['machine', 'cpu'],
         modifies=['machine_list', 'ghost:alloc', 'heap:Machine.id', 'heap:Machine.cpu', 'heap:Machine.memory', 'heap:Machine.disk',
                   'heap:Machine.bandwidth', 'heap:Machine.status', 'heap:Machine.transfer_flag', 'heap:Machine.current_task'],
         props=['C16'])


# ---- instrument section ---------------------------------------------------------------------------------------
def instr_body(c):
    n = c.n
    spec = n['observation'].t
    o = n['o'].t
    mu = mult(n.self.timestep_unit.t)
    H = lambda f: z3.Select(n.heap('Observation', f), o)
    S = lambda f: z3.Select(c.o.heap('ObsSpec', f), spec)     # the configured values: state at loop entry
    rate = S('data_product_rate') * mu
    return [('C16-multiplier-is-spec', n['timestep_multiplier'].num == mu),
            ('C16-start-divided', H('est') == S('start') / mu),
            ('C16-duration-divided', H('duration') == S('duration') / mu),
            ('C16-rate-multiplied-rounded', H('ingest_data_rate') == zround_(rate)),
            ('C16-rate-multiplied-exact-when-whole', z3.Implies(z3.IsInt(rate), H('ingest_data_rate') == rate)),
            ('C16-demand-unscaled', H('demand') == S('instrument_demand')),
            ('name-kept', H('name') == S('name')),
            ('starts-waiting', z3.And(H('status') == enum_code('RunStatus', 'WAITING'), H('total_data_size') == 0)),
            ('C13-C08-a-new-observation-has-no-actual-start-yet', z3.Select(n.heap('Observation', 'ast.none', B), o))]


def zround_(x):
    from pyvc.core import zround
    return zround(x)


def _obs_facts(sv, lst, pl):
    """every created observation is an object whose pipeline exists (the loop looks pipelines[name] up: KeyError otherwise)
    and whose array demand is the configured (non-negative) one"""
    H = lambda f, o: z3.Select(sv.heap('Observation', f), o)
    return Q([('o', I)], lambda o: z3.Implies(lst.count(o) > 0, z3.And(
        o > 0, z3.Select(pl.keys, H('name', o)), z3.Select(pl.vals, H('name', o)) > 0, H('demand', o) >= 0)))


def instr_inv(c):
    n = c.n
    return [('every-observation-created-has-a-pipeline', _obs_facts(n, n['observations'], n['pipelines'])),
            ('pipelines-is-the-configured-map', z3.And(n['pipelines'].keys == c.o.self.instrument['telescope']['pipelines'].keys,
                                                      n['pipelines'].vals == c.o.self.instrument['telescope']['pipelines'].vals)),
            ('one-observation-per-entry', n['observations'].n == c.x['visited'].n),
            ('multiplier-fixed', n['timestep_multiplier'].num == mult(n.self.timestep_unit.t)),
            ('multiplier-nonzero', n['timestep_multiplier'].num != 0)]


OBS_FIELDS = ['name', 'buffer_id', 'cluster_id', 'est', 'ast', 'duration', 'demand', 'workflow', 'total_data_size',
              'ingest_data_rate', 'timestep', 'status', 'min_resources', 'max_resources', 'plan']

REG.contract('Config.parse_instrument_config', world=config_world, params={}, fix={'instrument_name': 'telescope'},
    requires=lambda c: well_formed_json(c) + [('multiplier-positive', mult(unit(c)) > 0), (
        'durations-are-whole-multiples-of-the-unit', Q([('o', I)], lambda o: z3.Implies(
            c.o.self.instrument['telescope']['observations'].count(o) > 0, z3.And(
                z3.Select(c.o.heap('ObsSpec', 'duration'), o) >= 0,
                z3.IsInt(z3.Select(c.o.heap('ObsSpec', 'duration'), o) / mult(unit(c))))))),
        ('assume:configured-array-demands-nonnegative', Q([('o', I)], lambda o: z3.Implies(
            c.o.self.instrument['telescope']['observations'].count(o) > 0, z3.Select(c.o.heap('ObsSpec', 'instrument_demand'), o) >= 0)))],
    ensures=lambda c: [('C16-total-arrays-unscaled', c.result[0].t == c.o.self.instrument['telescope']['total_arrays'].t),
                       ('C16-max-ingest-unscaled', c.result[3].t == c.o.self.instrument['telescope']['max_ingest_resources'].t),
                       ('one-observation-per-entry', c.result[2].n == c.o.self.instrument['telescope']['observations'].n),
                       ('C08-every-observation-has-a-pipeline', _obs_facts(c.n, c.result[2], c.result[1])),
                       ('pipelines-returned-as-configured', z3.And(c.result[1].keys == c.o.self.instrument['telescope']['pipelines'].keys,
                                                                  c.result[1].vals == c.o.self.instrument['telescope']['pipelines'].vals))],
    raises={'KeyError': dict(when=None, unchanged=False)},
    modifies=['heap:Observation.' + f for f in OBS_FIELDS],
    result='tuple:num,dict:str->ref:PipelineSpec,list:Observation,num',
    props=['C16'])
REG.loop('Config.parse_instrument_config', 0, inv=instr_inv, body=instr_body,
         modifies_locals=['observation', 'name', 'workflow_path', 'ingest_demand', 'min_resources', 'max_resources', 'o'],
         modifies=['observations', 'ghost:alloc'] + ['heap:Observation.' + f for f in OBS_FIELDS],
         props=['C16'])


# ---- buffer section -------------------------------------------------------------------------------------------
def buffer_ensures(c):
    hot = c.result[0][0]
    cold = c.result[1][0]
    b = c.o.self.buffer
    mu = mult(unit(c))
    return [('C16-hot-capacity-unscaled', z3.And(hot.total_capacity.t == b['hot']['capacity'].t,
                                                 hot.current_capacity.t == b['hot']['capacity'].t)),
            ('C16-hot-rate-scaled', hot.max_ingest_data_rate.t == b['hot']['max_ingest_rate'].t * mu),
            ('C16-cold-capacity-unscaled', z3.And(cold.total_capacity.t == b['cold']['capacity'].t,
                                                  cold.current_capacity.t == b['cold']['capacity'].t)),
            ('C16-cold-rate-scaled', cold.max_data_rate.t == b['cold']['max_data_rate'].t * mu)]


REG.contract('Config.parse_buffer_config', world=config_world, params={}, ensures=buffer_ensures, props=['C16'])


# ---- lemmas: what the scaling is for ----------------------------------------------------------------------------
def _lemma_volume():
    rate, dur, mu = z3.Reals('rate dur mu')
    return [mu > 0], (rate * mu) * (dur / mu) == rate * dur


def _lemma_ratecmp():
    rate, mx, mu = z3.Reals('rate mx mu')
    return [mu > 0], (rate * mu <= mx * mu) == (rate <= mx)


def _lemma_runtime():
    flops, cpu, mu = z3.Reals('flops cpu mu')
    return [mu > 0, cpu > 0], (flops / (cpu * mu)) * mu == flops / cpu


REG.lemmas.append(('C16-data-volume-independent-of-unit', ['C16'], _lemma_volume))
REG.lemmas.append(('C16-rate-limit-comparison-independent-of-unit', ['C16'], _lemma_ratecmp))
REG.lemmas.append(('C16-runtime-in-seconds-independent-of-unit', ['C16'], _lemma_runtime))
