"""Contract sidecars for top-sim/topsim.  Importing this package loads every module into one registry."""
from .base import REG
from . import task, delay, config, cluster, deps, planner, buffer, world, scheduler, telescope, simulation, algorithms   # noqa
from .notes import PROPERTY_NOTES  # noqa
