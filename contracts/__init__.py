"""Contract sidecars for top-sim/topsim.  Importing this package loads every module into one registry."""
from .base import REG
from . import task, delay, config, cluster, deps, planner, buffer, world, scheduler, telescope, simulation, algorithms   # noqa
from .notes import PROPERTY_NOTES  # noqa

# Pure queries (empty frame) whose own proofs need neither the class invariants nor the heap invariants: they are verified
# WITHOUT assuming them, so a caller may use them in the middle of an update (no invariant obligation at the call site, and
# nothing is re-assumed after the call).  Every other callee with `invariants=True` was verified assuming the invariants on
# entry: there the invariants are obligations of the caller at every call site (pre:<callee>@<site>:inv:<clause>).
INVARIANT_FREE_QUERIES = [
    'Cluster.get_available_resources', 'Cluster.current_available_resources', 'Cluster.get_idle_resources',
    'Cluster.is_observation_provisioned', 'Cluster.is_occupied', 'Cluster.is_task_finished', 'Cluster.__len__',
    'Cluster.check_ingest_capacity', 'Cluster.get_machine_from_id', 'Cluster.finished_task_time_data', 'Cluster.finished_tasks',
    'WorkflowPlan.get_task_successors', 'WorkflowPlan.get_task_predecessors', 'Planning._calc_workflow_est',
    'HotBuffer.has_capacity_for', 'ColdBuffer.has_capacity_for', 'HotBuffer.has_stored_observations', 'Buffer.is_empty', 'Buffer.to_df',
    'Scheduler.is_idle', 'Scheduler._find_pred_allocations', 'Planner.run', 'Scheduler.to_df', 'Observation.is_ready',
    'Observation.is_finished', 'Telescope.is_idle', 'Telescope.has_observations_to_process', 'Telescope.observations_waiting',
    'Telescope.observations_finished', 'Telescope._calc_observation_delay', 'Telescope.to_df', 'Buffer.check_buffer_capacity',
]
for _q in INVARIANT_FREE_QUERIES:
    assert not REG.contracts[_q].modifies, _q
    REG.contracts[_q].invariants = False
