"""Contracts for topsim/core/scheduler.py (C01, C03, C04, C08, C13, C15, C17, C19)."""
import z3
from .base import *
from .world import world_of, EVENT
from .task import rt, machine_ok, task_ok, TS
from .cluster import CV, cluster_invariant, same_list
from .buffer import hot, cold, obs_ok, size_of, slot, _add_event_ens, _add_event_ghost, events_inv, unlogged

SW = world_of('scheduler')
RS = lambda m: enum_code('RunStatus', m)
WS = lambda m: enum_code('WorkflowStatus', m)
SS = lambda m: enum_code('ScheduleStatus', m)

REG.contract('Scheduler._add_event', world=SW, params={'observation': 'Observation', 'resource': 'str', 'event': 'str'},
             ensures=_add_event_ens('scheduler'), ghost=_add_event_ghost('scheduler'), modifies=['self.events', 'ghost:unlogged_scheduler'],
             props=['C13'])


def admitted(sv):
    """ghost: ingest-machine demand of the observations admitted by check_ingest_capacity whose ingest (allocate_ingest) has not
    returned yet.  + demand where an admission is granted, - demand where allocate_ingest returns; Telescope.run's body
    obligations say that every granted admission spawns its allocate_ingest in the same iteration."""
    if 'admitted_ingest' not in sv._s.ghost:
        sv._s.ghost['admitted_ingest'] = z3.Real('ghost0_admitted_ingest')
    return sv._s.ghost['admitted_ingest']


def scheduler_inv(v, sv):
    return events_inv('scheduler')(v, sv) + [
        ('C08-promise-counter-is-the-demand-of-the-admitted-ingests-in-progress', v.provision_ingest.t == admitted(sv))]


REG.invariants['Scheduler'] = scheduler_inv
REG.zero_at_init['Scheduler'] = [('unlogged_scheduler', 'int'), ('admitted_ingest', 'real')]

# __init__ establishes the Scheduler invariant (nothing logged, nothing promised, nothing admitted)
REG.contract('Scheduler.__init__', params={'env': 'env', 'buffer': 'any', 'cluster': 'any', 'algorithm': 'any'},
             world=lambda eng: {'self': __import__('pyvc.state', fromlist=['ObjV']).ObjV('Scheduler', {}, 'Scheduler')},
             ensures=lambda c: [('C19-queue-empty', c.n.self.observation_queue.n == 0), ('C08-nothing-promised', c.n.self.provision_ingest.t == 0),
                                ('C13-no-events', c.n.self.events.n == 0)],
             invariants='post', modifies=['*'], props=['C08', 'C13', 'C19'])

REG.contract('Scheduler.is_idle', world=SW,
             ensures=lambda c: [('C19-idle-iff-no-observation-queued', c.result.t == (c.o.self.observation_queue.n == 0))],
             result='bool', props=['C19', 'C04'])


# ---- Task.update_allocation (called when the algorithm names a machine other than the planned one)
def _ua_ens(c):
    t0, t1, m = c.o.self, c.n.self, c.o.machine
    r = rt(c, t0, m)
    return [('duration-only-grows', t1.duration.t == zmax(t0.duration.t, r)),
            ('C15-flag-when-longer', z3.Implies(r > t0.duration.t, z3.And(t1.delay_flag.t, t1.delay_offset.t == r - t0.duration.t))),
            ('records-the-machine', t1.allocated_machine_id.t == m.t),
            ('status-untouched', t1.task_status.t == t0.task_status.t)]


REG.contract('Task.update_allocation', params={'machine': 'Machine'},
             requires=lambda c: [('machine-ok', machine_ok(c.o.machine)), ('task-ok', task_ok(c.o.self))],
             ensures=_ua_ens,
             modifies=['heap:Task.allocated_machine_id', 'heap:Task.delay_flag', 'heap:Task.delay_offset', 'heap:Task.duration'],
             props=['C17', 'C15', 'C06'])


# ---- _find_pred_allocations: the predecessors that ran on another machine (C03)
FST = z3.Function('fst', I, I)
SND = z3.Function('snd', I, I)


def _fpa_missing(c):
    t, al = c.o.task, c.o.allocations
    return z3.Exists([z3.Int('p')], z3.And(t.pred.count(z3.Int('p')) > 0, z3.Not(z3.Select(al.keys, z3.Int('p')))))


def _fpa_ens(c):
    t, al, m = c.o.task, c.o.allocations, c.o.machine.t
    res = c.result
    pair = lambda p: z3.Select(al.vals, p)
    return [('C03-every-cross-machine-predecessor-is-listed', Q([('p', I)], lambda p: z3.Implies(
        z3.And(t.pred.count(p) > 0, SND(pair(p)) != m), res.count(FST(pair(p))) > 0))),
            ('C03-only-cross-machine-predecessors-are-listed', Q([('x', I)], lambda x: z3.Implies(
                res.count(x) > 0, z3.Exists([z3.Int('p')], z3.And(t.pred.count(z3.Int('p')) > 0, FST(pair(z3.Int('p'))) == x,
                                                                  SND(pair(z3.Int('p'))) != m)))))]


def _fpa_inv(c):
    vis = c.x['visited']
    t, al, m = c.o.task, c.o.allocations, c.o.machine.t
    res = c.n['pred_allocations']
    pair = lambda p: z3.Select(al.vals, p)
    return [('listed-so-far', Q([('p', I)], lambda p: z3.Implies(
        z3.And(z3.Select(vis.cnt, p) > 0, SND(pair(p)) != m), res.count(FST(pair(p))) > 0))),
            ('only-cross-machine', Q([('x', I)], lambda x: z3.Implies(
                res.count(x) > 0, z3.Exists([z3.Int('p')], z3.And(z3.Select(vis.cnt, z3.Int('p')) > 0, FST(pair(z3.Int('p'))) == x,
                                                                  SND(pair(z3.Int('p'))) != m))))),
            ('all-visited-were-allocated', Q([('p', I)], lambda p: z3.Implies(z3.Select(vis.cnt, p) > 0, z3.Select(al.keys, p))))]


REG.contract('Scheduler._find_pred_allocations', world=SW,
             params={'task': 'Task', 'machine': 'Machine', 'allocations': 'dict:str->pair:Task,Machine'},
             ensures=_fpa_ens, result='list:Task', raises={'KeyError': dict(when=_fpa_missing)}, props=['C03'])
REG.loop('Scheduler._find_pred_allocations', 0, inv=_fpa_inv,
         modifies_locals=['pred', 'pred_task', 'pred_machine', 'alt'], modifies=['pred_allocations'], props=['C03'])


# ---- _update_current_plan: finished tasks leave the plan; a flagged one marks the schedule delayed (C04, C15)
def _ucp_ens(c):
    plan = c.o.current_plan
    res = c.result
    st = lambda t: z3.Select(c.o.heap('Task', 'task_status'), t)
    fl = lambda t: z3.Select(c.o.heap('Task', 'delay_flag'), t)
    return [('C04-unfinished-tasks-stay', Q([('t', I)], lambda t: res.count(t) == z3.If(st(t) != TS('FINISHED'), plan.tasks.count(t), 0))),
            ('C15-delayed-once-a-flagged-task-has-completed', z3.Implies(
                z3.Exists([z3.Int('t')], z3.And(plan.tasks.count(z3.Int('t')) > 0, st(z3.Int('t')) == TS('FINISHED'), fl(z3.Int('t')))),
                c.n.self.schedule_status.t == SS('DELAYED'))),
            ('otherwise-status-kept', z3.Or(c.n.self.schedule_status.t == c.o.self.schedule_status.t,
                                            c.n.self.schedule_status.t == SS('DELAYED')))]


def _ucp_inv(c):
    vis = c.x['visited']
    res = c.n['remaining_tasks']
    st = lambda t: z3.Select(c.o.heap('Task', 'task_status'), t)
    fl = lambda t: z3.Select(c.o.heap('Task', 'delay_flag'), t)
    return [('remaining-so-far', Q([('t', I)], lambda t: res.count(t) == z3.If(st(t) != TS('FINISHED'), z3.Select(vis.cnt, t), 0))),
            ('delayed-if-a-visited-flagged-task-finished', z3.Implies(
                z3.Exists([z3.Int('t')], z3.And(z3.Select(vis.cnt, z3.Int('t')) > 0, st(z3.Int('t')) == TS('FINISHED'), fl(z3.Int('t')))),
                c.n.self.schedule_status.t == SS('DELAYED'))),
            ('status-kept-or-delayed', z3.Or(c.n.self.schedule_status.t == c.o.self.schedule_status.t,
                                             c.n.self.schedule_status.t == SS('DELAYED')))]


REG.contract('Scheduler._update_current_plan', world=SW, params={'current_plan': 'WorkflowPlan'},
             requires=lambda c: [('tasks-are-objects', Q([('t', I)], lambda t: z3.Implies(c.o.current_plan.tasks.count(t) > 0, t > 0)))],
             ensures=_ucp_ens, result='list:Task', modifies=['self.schedule_status', 'self.delay_offset'], props=['C04', 'C15'])
REG.loop('Scheduler._update_current_plan', 0, inv=_ucp_inv, modifies_locals=['t'],
         modifies=['remaining_tasks', 'self.schedule_status', 'self.delay_offset'], props=['C04', 'C15'])


# ---- check_ingest_capacity (C08 admission, scheduler side) ---------------------------------------------------------
def _demand(c, sv):
    ob = sv.observation
    spec = z3.Select(sv.pipelines.vals, ob.name.t)
    return z3.Select(sv.heap('PipelineSpec', 'ingest_demand'), spec)


def _sic_ens(c):
    o, n = c.o, c.n
    s = o.self
    d = _demand(c, o)
    size = o.observation.ingest_data_rate.t * o.observation.duration.t
    k = CV(s.cluster)
    tr = slot(cold(s.buffer))
    cold_pending = z3.If(tr != 0, size_of(o, tr), 0)
    buf = z3.And(hot(s.buffer).current_capacity.t - size >= 0, cold(s.buffer).current_capacity.t - (size + cold_pending) >= 0)
    clu = z3.And(d <= o.max_ingest.t, z3.ToReal(k.av.n) >= d, z3.ToReal(k.ing.n) + d <= o.max_ingest.t,
                 s.provision_ingest.t + d <= o.max_ingest.t)
    return [('C08-admits-only-when-buffers-and-cluster-have-room', c.result.t == z3.And(buf, clu)),
            ('C08-promise-made-exactly-when-admitted', n.self.provision_ingest.t == s.provision_ingest.t + z3.If(c.result.t, d, 0)),
            ('admitted-demand-ghost-follows-the-decision', admitted(n) == admitted(o) + z3.If(c.result.t, d, 0))]


def _sic_ghost(eng, vals):
    # the ghost follows the DECISION (the value returned), not the code's counter
    sv = SV(eng, eng.st, vals)
    g = admitted(sv)
    eng.st.ghost['admitted_ingest'] = g + z3.If(V(eng, eng.st, eng.ret_value).t, _demand(None, sv), 0)


REG.contract('Scheduler.check_ingest_capacity', world=SW,
             params={'observation': 'Observation', 'pipelines': 'dict:str->ref:PipelineSpec', 'max_ingest': 'num'},
             requires=lambda c: [('observation-in-buffer-0', obs_ok(c.o, c.o.observation.t)),
                                 ('pipeline-known', z3.And(z3.Select(c.o.pipelines.keys, c.o.observation.name.t),
                                                           z3.Select(c.o.pipelines.vals, c.o.observation.name.t) > 0))],
             ensures=_sic_ens, ghost=_sic_ghost, result='bool', modifies=['self.provision_ingest', 'ghost:admitted_ingest'],
             raises={'RuntimeError': dict(when=lambda c: z3.Or(c.o.observation.duration.t < 1,
                                                               hot(c.o.self.buffer).total_capacity.t <= c.o.observation.ingest_data_rate.t * c.o.observation.duration.t))},
             props=['C08'])


# ---- allocate_ingest: the per-observation ingest process (C08: holds the machines for exactly `duration` steps)
def _ai_y0(c):
    v = c.n
    ob = v.observation
    return [('time-left-nonneg', v['time_left'].t >= 0), ('one-step-wait', v['_ydelay'].t == 1),
            ('C08-elapsed-plus-left-is-duration', z3.BoolVal(True))]


def _ai_step(c):
    o, n = c.o, c.n
    out = []
    frm, to = c.x['frm'], c.x['to']
    if frm == -1 and to == 0:
        sp = [g.qual for g, p, nd in c.x['spawns']]
        waiting = o.observation.status.t == RS('WAITING')
        out.append(('C08-first-step-provisions-ingest-and-starts-the-stream-exactly-when-waiting', z3.If(
            waiting, z3.And(z3.BoolVal(sp == ['Cluster.provision_ingest_resources', 'Buffer.ingest_data_stream']),
                            n.observation.status.t == RS('RUNNING')), z3.BoolVal(sp == []))))
        out.append(('C13-actual-start-recorded', n.observation.ast.t == o.now))
    if frm == 0 and to == 0:
        out.append(('C08-counts-down-one-step', z3.Implies(o.observation.status.t == RS('RUNNING'),
                                                          n['time_left'].t == o['time_left'].t - 1)))
    if to == 'return':
        d = _ai_demand(c, o)
        out.append(('C08-promise-released-at-the-end', n.self.provision_ingest.t == o.self.provision_ingest.t - d))
        out.append(('admitted-demand-ghost-released-at-the-end', admitted(n) == admitted(o) - d))
    else:
        out.append(('admitted-demand-ghost-kept-while-ingesting', admitted(n) == admitted(o)))
    return out


def _ai_ghost(eng, vals):
    sv = SV(eng, eng.st, vals)
    eng.st.ghost['admitted_ingest'] = admitted(sv) - _ai_demand(None, sv)


def _ai_demand(c, sv):
    spec = z3.Select(sv.pipelines.vals, sv.observation.name.t)
    return z3.Select(sv.heap('PipelineSpec', 'ingest_demand'), spec)


REG.contract('Scheduler.allocate_ingest', world=SW,
             params={'observation': 'Observation', 'pipelines': 'dict:str->ref:PipelineSpec', 'planner': 'root:planner',
                     'max_ingest': 'any'}, fix={'c': 'default'},
             locals_types={'pipeline_demand': 'num', 'ingest_observation': 'Observation', 'time_left': 'num'},
             requires=lambda c: [('pipeline-known', z3.And(z3.Select(c.o.pipelines.keys, c.o.observation.name.t),
                                                           z3.Select(c.o.pipelines.vals, c.o.observation.name.t) > 0)),
                                 ('C08-admitted-observation-lasts-at-least-one-step', c.o.observation.duration.t >= 1)],
             yields={0: lambda c: [('one-step-wait', c.n['_ydelay'].t == 1), ('same-observation', c.n['ingest_observation'].t == c.n.observation.t),
                                   ('demand-whole', z3.IsInt(c.n['pipeline_demand'].t)), ('lasts-at-least-one-step', c.n.observation.duration.t >= 1),
                                   ('demand-is-the-pipeline-demand', c.n['pipeline_demand'].t == _ai_demand(c, c.n)),
                                   ('pipeline-known', z3.Select(c.n.pipelines.keys, c.n.observation.name.t))]},
             step=_ai_step, ghost=_ai_ghost,
             modifies=['self.provision_ingest', 'ghost:admitted_ingest', 'self.cluster._ingest.completed', 'self.cluster._ingest.status',
                       'heap:Observation.ast', 'heap:Observation.status'],
             props=['C08', 'C13'])


# ---- the user-supplied scheduling algorithm: an abstract callee (DESIGN 7.6) ------------------------------------------
def _alg_ens(c):
    """It may call the public cluster API (provision / release batch resources, read-only queries) any number of times and
    returns an ARBITRARY mapping task -> machine, an arbitrary status and an arbitrary set."""
    k0, k1 = CV(c.o.cluster), CV(c.n.cluster)
    sched = c.result[0]
    out = [(f'cluster.{nm}', cl) for nm, cl in cluster_invariant(c.n.cluster, c.n)]
    out += [('busy-pools-untouched', z3.And(same_list(k1.ing, k0.ing), same_list(k1.occ, k0.occ))),
            ('task-maps-untouched', z3.And(same_list(k1.run, k0.run), k1.fin.keys == k0.fin.keys, k1.fin.vals == k0.fin.vals)),
            ('proposals-name-objects', Q([('t', I)], lambda t: z3.Implies(z3.Select(sched.keys, t), z3.And(t > 0, z3.Select(sched.vals, t) > 0))))]
    return out


REG.contract('Scheduling.run', assumed=True,
             params={'cluster': 'obj:Cluster', 'clock': 'num', 'workflow_plan': 'WorkflowPlan', 'existing_schedule': 'dict:Task->ref:Machine',
                     'task_pool': 'set:Task'},
             ensures=_alg_ens, result='tuple:dict:Task->ref:Machine,enum:WorkflowStatus,set:Task',
             modifies=['cluster._resources.available', 'cluster._resources.idle', 'cluster.num_provisioned_obs', 'heap:WorkflowPlan.status',
                       'arg:task_pool'],
             note="ASSUMED (the 'programs' quantifier): the weakest contract the documentation permits for a user algorithm; "
                  "the four in-tree algorithms are verified against their own, stronger contracts")


# ---- _process_current_schedule: the duplicate / busy-machine guard (C01), only UNSCHEDULED tasks are submitted (C04) ----
def _pcs_inv(c):
    n = c.n
    k = CV(n.self.cluster)
    ca = n['curr_allocs']
    it, vis, sch, sch0 = c.x['iter'], c.x['visited'], n['schedule'], c.x['pre']['schedule']
    st0 = lambda x: z3.Select(c.x['pre'].heap('Task', 'task_status'), x)
    st1 = lambda x: z3.Select(n.heap('Task', 'task_status'), x)
    return [('C04-statuses-only-move-from-unscheduled-to-scheduled', Q([('x', I)], lambda x: z3.Or(
        st1(x) == st0(x), z3.And(st0(x) == TS('UNSCHEDULED'), st1(x) == TS('SCHEDULED'))))),
            ('schedule-only-shrinks', Q([('t', I)], lambda t: z3.Implies(z3.Select(sch.keys, t), z3.And(
                z3.Select(sch0.keys, t), z3.Select(sch.vals, t) == z3.Select(sch0.vals, t))))),
            ('unvisited-proposals-are-still-in-the-schedule', Q([('t', I)], lambda t: z3.Implies(
        z3.Select(it.cnt, t) - z3.Select(vis.cnt, t) > 0, z3.And(z3.Select(sch.keys, t), z3.Select(sch.vals, t) > 0, t > 0,
                                                                  z3.Select(sch.vals, t) == z3.Select(sch0.vals, t))))),
            ('C01-machines-handed-out-this-round-are-distinct', Q([('m', I)], lambda m: z3.And(ca.count(m) >= 0, ca.count(m) <= 1))),
            ('C01-machines-handed-out-this-round-were-not-busy', Q([('m', I)], lambda m: z3.Implies(
                ca.count(m) > 0, z3.And(k.occ.count(m) == 0, k.ing.count(m) == 0))))]


def _pcs_body(c):
    n, s0 = c.n, c.x['iter_start']
    k = CV(n.self.cluster)
    t = n['task']
    m = n['machine']
    sp = [g for g, p, nd in c.x['spawns'] if g.qual == 'Cluster.allocate_task_to_cluster']
    st0 = z3.Select(s0.heap('Task', 'task_status'), t.t)
    st1 = z3.Select(n.heap('Task', 'task_status'), t.t)
    sch0, sch1 = s0['schedule'], n['schedule']
    if len(sp) == 0:
        # a refused proposal (machine handed out this round / busy) is kept for the next round: the algorithms drop a task from
        # their pool once they have proposed it, so the retained schedule is the only memory of it (C04: no task is lost
        # whatever the algorithm proposed)
        return [('C01-skipped-proposal-changes-no-status', st1 == st0),
                ('C04-skipped-proposal-stays-in-the-schedule', z3.And(z3.Select(sch1.keys, t.t), z3.Select(sch1.vals, t.t) == m.t))]
    if len(sp) > 1:
        return [('C01-at-most-one-allocation-per-proposal', z3.BoolVal(False))]
    g = sp[0]
    return [('C01-never-a-machine-already-handed-out-this-round', s0['curr_allocs'].count(m) == 0),
            ('C01-never-a-busy-machine', z3.And(k.occ.count(m) == 0, k.ing.count(m) == 0)),
            ('C04-only-unscheduled-tasks-are-submitted', st0 == TS('UNSCHEDULED')),
            ('C04-submitted-task-is-marked-scheduled', st1 == TS('SCHEDULED')),
            ('C17-allocation-is-for-the-proposed-pair', z3.And(g.args['task'].t == t.t, g.args['machine'].t == m.t)),
            ('C09-allocation-carries-the-workflow-id', c.eng.as_int_term(g.args['observation']) == n.workflow_id.t),
            ('C04-its-task-has-not-run', z3.And(k.run.count(t) == 0, z3.Not(z3.And(k.fin.has(t), z3.Select(k.fin.vals, t.t))))),
            ('C04-submitted-proposal-leaves-the-schedule', z3.Not(z3.Select(sch1.keys, t.t)))]


REG.contract('Scheduler._process_current_schedule', world=SW,
             params={'schedule': 'dict:Task->ref:Machine', 'allocation_pairs': 'dict:str->pair:Task,Machine', 'workflow_id': 'str'},
             requires=lambda c: [('proposals-name-objects', Q([('t', I)], lambda t: z3.Implies(
                 z3.Select(c.o.schedule.keys, t), z3.And(t > 0, z3.Select(c.o.schedule.vals, t) > 0))))],
             ensures=lambda c: [('C04-statuses-only-move-from-unscheduled-to-scheduled', Q([('x', I)], lambda x: z3.Or(
                 z3.Select(c.n.heap('Task', 'task_status'), x) == z3.Select(c.o.heap('Task', 'task_status'), x),
                 z3.And(z3.Select(c.o.heap('Task', 'task_status'), x) == TS('UNSCHEDULED'),
                        z3.Select(c.n.heap('Task', 'task_status'), x) == TS('SCHEDULED'))))),
                                ('C01-skipped-proposals-stay-in-the-schedule-unchanged', Q([('t', I)], lambda t: z3.Implies(
                                    z3.Select(c.result[0].keys, t), z3.And(z3.Select(c.o.schedule.keys, t), z3.Select(
                                        c.result[0].vals, t) == z3.Select(c.o.schedule.vals, t)))))],
             result='tuple:dict:Task->ref:Machine,dict:str->pair:Task,Machine',
             raises={'RuntimeError': dict(when=None, unchanged=False), 'KeyError': dict(when=None, unchanged=False)},
             modifies=['arg:schedule', 'arg:allocation_pairs', 'heap:Task.task_status', 'heap:Task.allocated_machine_id',
                       'heap:Task.delay_flag', 'heap:Task.delay_offset', 'heap:Task.duration'],
             props=['C01', 'C04', 'C17', 'C09'])
REG.loop('Scheduler._process_current_schedule', 0, inv=_pcs_inv, body=_pcs_body,
         modifies_locals=['task', 'machine', 'pred_allocations'],
         modifies=['curr_allocs', 'schedule', 'allocation_pairs', 'heap:Task.task_status', 'heap:Task.allocated_machine_id',
                   'heap:Task.delay_flag', 'heap:Task.delay_offset', 'heap:Task.duration'],
         props=['C01', 'C04', 'C17', 'C09'])


# ---- planner / buffer hand-off -----------------------------------------------------------------------------------------
REG.contract('Planning.generate_plan', assumed=True,
             params={'clock': 'num', 'cluster': 'obj:Cluster', 'buffer': 'any', 'observation': 'Observation', 'max_ingest': 'any'},
             ensures=lambda c: [('returns-a-plan', c.result.t > 0)], result='WorkflowPlan',
             note="ASSUMED: the planning model is user supplied; the in-tree BatchPlanning.generate_plan is verified under C14")
REG.contract('Planner.run', world=world_of('planner'), params={'observation': 'Observation', 'buffer': 'any', 'max_ingest': 'any'},
             ensures=lambda c: [('returns-a-plan', c.result.t > 0)], result='WorkflowPlan', props=['C04'])


def _bnofp_ens(c):
    o, n = c.o.self, c.n.self
    st_o, st_n = hot(o).observations['stored'], hot(n).observations['stored']
    sc_o, sc_n = hot(o).observations['scheduled'], hot(n).observations['scheduled']
    r = c.result.t
    return [('C04-one-observation-moves-from-stored-to-scheduled', z3.And(
        st_o.count(r) > 0, st_n.cnt == z3.Store(st_o.cnt, r, z3.Select(st_o.cnt, r) - 1), st_n.n == st_o.n - 1,
        sc_n.cnt == z3.Store(sc_o.cnt, r, z3.Select(sc_o.cnt, r) + 1), sc_n.n == sc_o.n + 1)),
            ('C04-it-gets-a-plan', z3.Select(c.n.heap('Observation', 'plan'), r) > 0)]


REG.contract('Buffer.next_observation_for_processing', world=world_of('buffer'),
             requires=lambda c: [('something-stored', hot(c.o.self).observations['stored'].n > 0),
                                 ('stored-observations-are-objects', Q([('o', I)], lambda o: z3.Implies(
                                     hot(c.o.self).observations['stored'].count(o) > 0, o > 0)))],
             ensures=_bnofp_ens, result='Observation',
             modifies=['self.hot.0.observations.stored', 'self.hot.0.observations.scheduled', 'heap:Observation.plan'],
             props=['C04'])


# ---- _generate_current_schedule ------------------------------------------------------------------------------------------
def _gcs_ens(c):
    o, n = c.o, c.n
    s0, s1 = o.self, n.self
    ob = o.observation
    finished = c.result[3]
    k0, k1 = CV(s0.cluster), CV(s1.cluster)
    nm = ob.name.t
    q0, q1 = s0.observation_queue, s1.observation_queue
    fin = c.eng.truth(finished.val)
    hot0, hot1 = hot(s0.buffer), hot(s1.buffer)
    return [('C04-finished-only-when-the-algorithm-says-so-and-nothing-is-left-to-allocate', z3.Implies(fin, z3.And(
        c.result[1].nk == 0, z3.Select(n.heap('WorkflowPlan', 'status'), o.current_plan.t) == WS('FINISHED')))),
            ('C04-C13-finished-observation-leaves-the-queue-once', z3.If(fin, z3.And(
                q1.cnt == z3.Store(q0.cnt, ob.t, z3.Select(q0.cnt, ob.t) - 1), q1.n == q0.n - 1), same_list(q1, q0))),
            ('C07-finished-observation-frees-its-data', z3.Implies(fin, hot1.current_capacity.t == hot0.current_capacity.t + size_of(o, ob.t))),
            ('C09-C04-finished-observation-holds-no-idle-reservation', z3.Implies(fin, z3.Or(z3.Not(k1.key(nm)), k1.idn(nm) == 0))),
            ('C01-busy-pools-untouched', z3.And(same_list(k1.ing, k0.ing), same_list(k1.occ, k0.occ))),
            ('C13-events-only-grow', Q([('e', I)], lambda e: z3.Select(s1.events.cnt, e) >= z3.Select(s0.events.cnt, e))),
            ('proposals-name-objects', Q([('t', I)], lambda t: z3.Implies(z3.Select(c.result[1].keys, t), z3.And(
                t > 0, z3.Select(c.result[1].vals, t) > 0)))),
            ('returns-the-plan', c.result[0].t == o.current_plan.t)]


REG.contract('Scheduler._generate_current_schedule', world=SW,
             params={'observation': 'Observation', 'current_plan': 'WorkflowPlan', 'schedule': 'dict:Task->ref:Machine', 'task_pool': 'set:Task'},
             requires=lambda c: [('observation-queued', c.o.self.observation_queue.count(c.o.observation) > 0),
                                 ('observation-in-buffer-0', obs_ok(c.o, c.o.observation.t))],
             ensures=_gcs_ens,
             result='tuple:WorkflowPlan,dict:Task->ref:Machine,set:Task,bool',
             modifies=['self.algtime', 'self.schedule_status', 'self.events', 'ghost:unlogged_scheduler', 'ghost:unlogged_buffer', 'self.observation_queue', 'self.cluster._resources.available',
                       'self.cluster._resources.idle', 'self.cluster.num_provisioned_obs', 'heap:WorkflowPlan.status', 'arg:task_pool',
                       'self.buffer.events', 'self.buffer.hot.0.current_capacity', 'self.buffer.hot.0.observations.finished',
                       'self.buffer.hot.0.observations.scheduled'],
             props=['C04', 'C09', 'C13', 'C07', 'C01', 'C10', 'C12'])


# ---- allocate_tasks: the per-observation workflow process ---------------------------------------------------------------
def _at_carried(c):
    v = c.n
    ob = v.observation
    return [('observation-queued', v.self.observation_queue.count(ob) > 0),
            ('observation-in-buffer-0', obs_ok(v, ob.t)),
            ('plan-is-an-object', v['current_plan'].t > 0),
            ('proposals-name-objects', Q([('t', I)], lambda t: z3.Implies(
                z3.Select(v['schedule'].keys, t), z3.And(t > 0, z3.Select(v['schedule'].vals, t) > 0)))),
            ('one-step-wait', v['_ydelay'].t == 1)]


def _at_step(c):
    o, n = c.o, c.n
    out = []
    if c.x['frm'] == -1 and c.x['to'] in (0, 1, 2):
        ev0, ev1 = o.self.events, n.self.events
        code = EVENT(o.now, z3.IntVal(STRINGS.intern('scheduler')), o.observation.name.t, z3.IntVal(STRINGS.intern('started')),
                     z3.IntVal(STRINGS.intern('allocation')))
        out.append(('C13-allocation-started-event-at-the-first-step', z3.Select(ev1.cnt, code) >= z3.Select(ev0.cnt, code) + 1))
    return out


REG.contract('Scheduler.allocate_tasks', world=SW, params={'observation': 'Observation'},
             locals_types={'minst': 'num', 'current_plan': 'WorkflowPlan', 'schedule': 'dict:Task->ref:Machine',
                           'allocation_pairs': 'dict:str->pair:Task,Machine', 'task_pool': 'set:Task', '_total_tasks': 'num',
                           '_curr_tasks': 'num', '_tqdm': 'bool', 'pbar': 'any', 'finished': 'bool', 'tmp': 'num', '_nupdate': 'num'},
             requires=lambda c: [('observation-queued', c.o.self.observation_queue.count(c.o.observation) > 0),
                                 ('observation-in-buffer-0', obs_ok(c.o, c.o.observation.t)),
                                 ('observation-has-a-plan', c.o.observation.plan.t > 0)],
             yields={0: _at_carried, 1: _at_carried, 2: lambda c: [('one-step-wait', c.n['_ydelay'].t == 1)]},
             step=_at_step,
             raises={'RuntimeError': dict(when=None, unchanged=False), 'KeyError': dict(when=None, unchanged=False)},
             modifies=['self.algtime', 'self.schedule_status', 'self.delay_offset', 'self.events', 'ghost:unlogged_scheduler', 'ghost:unlogged_buffer', 'self.observation_queue',
                       'self.cluster._resources.available', 'self.cluster._resources.idle', 'self.cluster.num_provisioned_obs',
                       'heap:WorkflowPlan.status', 'heap:WorkflowPlan.ast', 'heap:WorkflowPlan.tasks', 'heap:Task.workflow_offset',
                       'heap:Task.task_status', 'heap:Task.allocated_machine_id', 'heap:Task.delay_flag', 'heap:Task.delay_offset',
                       'heap:Task.duration', 'self.buffer.events', 'self.buffer.hot.0.current_capacity',
                       'self.buffer.hot.0.observations.finished', 'self.buffer.hot.0.observations.scheduled'],
             props=['C04', 'C13', 'C09', 'C01'])
REG.loop('Scheduler.allocate_tasks', 0, inv=lambda c: [], modifies_locals=['task'], modifies=['heap:Task.workflow_offset'], props=['C04'])


# ---- Scheduler.run ---------------------------------------------------------------------------------------------------------
def _srun_step(c):
    o, n = c.o, c.n
    sp = [g for g, p, nd in c.x['spawns'] if g.qual == 'Scheduler.allocate_tasks']
    q0, q1 = o.self.observation_queue, n.self.observation_queue
    if len(sp) == 0:
        return [('C04-queue-unchanged-when-nothing-is-handed-over', same_list(q1, q0))]
    if len(sp) > 1:
        return [('C04-at-most-one-hand-over-per-step', z3.BoolVal(False))]
    ob = sp[0].args['observation']
    code = EVENT(o.now, z3.IntVal(STRINGS.intern('scheduler')), n.of(ob).name.t, z3.IntVal(STRINGS.intern('added')),
                 z3.IntVal(STRINGS.intern('queue')))
    return [('C04-handed-over-observation-was-not-queued-and-is-queued-once', z3.And(
        q0.count(ob) == 0, q1.cnt == z3.Store(q0.cnt, ob.t, z3.IntVal(1)), q1.n == q0.n + 1)),
            ('C13-queue-added-event-in-the-same-step', z3.Select(n.self.events.cnt, code) == z3.Select(o.self.events.cnt, code) + 1)]


REG.contract('Scheduler.run', world=SW, locals_types={'obs': 'any', 'ret': 'proc'},
             requires=lambda c: [('stored-observations-are-objects', Q([('o', I)], lambda o: z3.Implies(
                 hot(c.o.self.buffer).observations['stored'].count(o) > 0, o > 0)))],
             yields={0: lambda c: [('one-step-wait', c.n['_ydelay'].t == 1),
                                   ('stored-observations-are-objects', Q([('o', I)], lambda o: z3.Implies(
                                       hot(c.n.self.buffer).observations['stored'].count(o) > 0, o > 0)))]},
             step=_srun_step,
             raises={'RuntimeError': dict(when=lambda c: c.o.self.status.t != enum_code('SchedulerStatus', 'RUNNING'))},
             modifies=['self.events', 'ghost:unlogged_scheduler', 'self.observation_queue', 'self.buffer.hot.0.observations.stored',
                       'self.buffer.hot.0.observations.scheduled', 'heap:Observation.plan'],
             props=['C04', 'C13', 'C12'])


def _sched_to_df(c):
    r = c.result
    s = c.o.self
    return [('C12-queue-length', r['scheduler_observation_queue'].t == z3.ToReal(s.observation_queue.n)),
            ('C12-delay-offset', r['delay_offset'].t == s.delay_offset.t)]


REG.contract('Scheduler.to_df', world=SW, ensures=_sched_to_df, props=['C12'],
             result='frame:scheduler_observation_queue=num;schedule_status=str;delay_offset=num')
REG.loop('Scheduler.to_df', 0, inv=lambda c: [], modifies_locals=['key', 'value'], props=['C12'])

REG.contract('Scheduler.start', world=SW,
             ensures=lambda c: [('running', c.n.self.status.t == enum_code('SchedulerStatus', 'RUNNING'))],
             result='enum:SchedulerStatus', modifies=['self.status'], props=['C11'])


# C10: the only place a wall-clock value may end up (the '*-algtime' columns are excluded by the property's statement)
REG.nondet_sinks = {'algtime'}
