"""Contracts for topsim/core/cluster.py (C02 foundation; C01, C09, C12, C19 cluster side)."""
import z3
from pyvc.state import ListObj
from .base import *
from . import config as _config

REG.builders['Config'] = lambda eng: _config.config_world(eng)['self']
REG.ctor_params['Cluster'] = {'env': 'env', 'config': 'obj:Config'}
REG.field_types.update({
    'Cluster.machines': 'list:Machine',
    'Cluster._resources.available': 'list:Machine', 'Cluster._resources.ingest': 'list:Machine',
    'Cluster._resources.occupied': 'list:Machine', 'Cluster._resources.idle': 'dict:str->list:Machine',
    'Cluster._tasks.running': 'list:Task', 'Cluster._tasks.waiting': 'list:Task', 'Cluster._tasks.finished': 'dict:Task->bool',
    'Cluster.machine_ids': 'dict:str->ref:Machine',
})
REG.const_fields.update({'Cluster.cl'})

CARDTRUE = z3.Function('cardtrue', BoolArr, BoolArr, I)


class CV:
    """named parts of a Cluster view"""
    def __init__(self, v):
        res = v._resources
        self.v = v
        self.av, self.ing, self.occ, self.idle = res['available'], res['ingest'], res['occupied'], res['idle']
        self.total = res['total']
        self.M = v.machines
        self.u = v._usage_data
        self.run = v._tasks['running']
        self.fin = v._tasks['finished']
        self.ingest = v._ingest
        self.npo = v.num_provisioned_obs

    def pools(self, m):
        return self.av.count(m) + self.ing.count(m) + self.occ.count(m)

    def idl(self, o, m):
        return z3.Select(z3.Select(self.idle.vcnt, o), m)

    def idn(self, o):
        return z3.Select(self.idle.vn, o)

    def key(self, o):
        return z3.Select(self.idle.keys, o)


def pool_invariant(v, sv):
    """C02: every machine is in exactly one pool / reserved-idle for exactly one observation; no duplicates"""
    k = CV(v)
    m, o, o2 = ('m', I), ('o', I), ('o2', I)
    return [
        ('machines-distinct', Q([m], lambda m: k.M.count(m) <= 1)),
        ('pools-disjoint-nodup', Q([m], lambda m: z3.And(k.av.count(m) >= 0, k.ing.count(m) >= 0, k.occ.count(m) >= 0,
                                                         k.pools(m) <= 1))),
        ('pool-members-are-machines', Q([m], lambda m: z3.Implies(k.pools(m) > 0, k.M.count(m) > 0))),
        ('reserved-nodup-not-pooled', Q([m, o], lambda m, o: z3.And(k.idl(o, m) >= 0, z3.Implies(
            z3.And(k.key(o), k.idl(o, m) > 0), z3.And(k.idl(o, m) == 1, k.pools(m) == 0, k.M.count(m) > 0))))),
        ('reserved-for-one-observation', Q([m, o, o2], lambda m, o, o2: z3.Implies(
            z3.And(k.key(o), k.key(o2), k.idl(o, m) > 0, k.idl(o2, m) > 0), o == o2))),
        ('every-machine-in-some-pool', Q([m], lambda m: z3.Implies(k.M.count(m) > 0, z3.Or(
            k.pools(m) == 1, z3.Exists([z3.Int('ow')], z3.And(k.key(z3.Int('ow')), k.idl(z3.Int('ow'), m) > 0)))))),
        ('total-is-machine-count', k.total.t == z3.ToReal(k.M.n)),
        ('waiting-list-unused', v._tasks['waiting'].n == 0),
    ]


def counter_invariant(v, sv):
    k = CV(v)
    return [
        ('C02-running-counter-true', k.u['running_tasks'].t == z3.ToReal(k.run.n)),
        ('C02-free-counter-true', k.u['available'].t == k.total.t - z3.ToReal(k.run.n)),
        ('C02-finished-counter-true', k.u['finished_tasks'].t == z3.ToReal(CARDTRUE(k.fin.keys, k.fin.vals))),
    ]


def cluster_invariant(v, sv):
    return pool_invariant(v, sv) + counter_invariant(v, sv)


REG.invariants['Cluster'] = cluster_invariant


def SVself(c, cfgview):
    """a state view whose `self` is the given Config view (to reuse the Config preconditions)"""
    return SV(c.eng, cfgview._s, {'self': cfgview._v})


def upd(arr, i, d):
    return z3.Store(arr, i, z3.Select(arr, i) + d)


def same_list(a, b):
    return z3.And(a.cnt == b.cnt, a.n == b.n)


def same_idle(a, b):
    return z3.And(a.keys == b.keys, a.vcnt == b.vcnt, a.vn == b.vn, a.nk == b.nk)


RES = ['self._resources.available', 'self._resources.ingest', 'self._resources.occupied', 'self._resources.idle']

# ---------------------------------------------------------------------------------------------- read-only queries
def _copy_of(path):
    def ens(c):
        src = c.o.self._resources[path]
        return [('equals-pool', same_list(c.result, src)),
                ('is-a-fresh-list', c.result.val is not c.n.self._resources[path].val)]
    return ens


REG.contract('Cluster.get_available_resources', fix={'c': 'default'}, ensures=_copy_of('available'), result='list:Machine',
             props=['C02', 'C09', 'C01'])
REG.contract('Cluster.current_available_resources', ensures=_copy_of('available'), result='list:Machine', props=['C02', 'C01'])


def _idle_res_ens(c):
    k = CV(c.o.self)
    ob = c.o.observation.t
    return [('reserved-list-or-empty', z3.If(k.key(ob), z3.And(c.result.cnt == z3.Select(k.idle.vcnt, ob), c.result.n == k.idn(ob)),
                                             z3.And(c.result.n == 0, c.result.cnt == z3.K(I, z3.IntVal(0)))))]


REG.contract('Cluster.get_idle_resources', params={'observation': 'str'}, fix={'c': 'default'}, ensures=_idle_res_ens,
             result='list:Machine', props=['C02', 'C09'])
REG.contract('Cluster.is_observation_provisioned', params={'observation': 'str'}, fix={'c': 'default'},
             ensures=lambda c: [('C09-exact', c.result.t == CV(c.o.self).key(c.o.observation.t))], result='bool', props=['C09'])
REG.contract('Cluster.is_occupied', params={'machine': 'Machine', 'observation': 'str'}, fix={'c': 'default'},
             ensures=lambda c: [('C01-exact', c.result.t == z3.Or(CV(c.o.self).occ.count(c.o.machine) > 0,
                                                                  CV(c.o.self).ing.count(c.o.machine) > 0))],
             result='bool', props=['C01', 'C02'])
REG.contract('Cluster.is_task_finished', params={'task': 'Task'}, fix={'c': 'default'},
             ensures=lambda c: [('C03-exact', c.result.t == z3.And(CV(c.o.self).fin.has(c.o.task),
                                                                  z3.Select(CV(c.o.self).fin.vals, c.o.task.t)))],
             result='bool', props=['C03', 'C02'])
REG.contract('Cluster.is_idle',
             ensures=lambda c: [('C19-idle-iff-nothing-runs', c.result.t == z3.And(
                 CV(c.o.self).run.n == 0, CV(c.o.self).occ.n == 0, CV(c.o.self).ing.n == 0))],
             result='bool', props=['C19'])
REG.contract('Cluster.__len__', ensures=lambda c: [('is-machine-count', c.result.t == z3.ToReal(CV(c.o.self).M.n))],
             result='num', props=['C09'])
REG.contract('Cluster.check_ingest_capacity', params={'pipeline_demand': 'num', 'max_ingest_resources': 'num'}, fix={'c': 'default'},
             ensures=lambda c: [('C08-exact', c.result.t == z3.And(
                 c.o.pipeline_demand.t <= c.o.max_ingest_resources.t,
                 z3.ToReal(CV(c.o.self).av.n) >= c.o.pipeline_demand.t,
                 z3.ToReal(CV(c.o.self).ing.n) + c.o.pipeline_demand.t <= c.o.max_ingest_resources.t))],
             result='bool', props=['C08'])


# ---------------------------------------------------------------------------------------------- private pool moves
def _smo_case(c):
    """(from_available, from_reservation) in the pre-state"""
    k = CV(c.o.self)
    m, ob = c.o.machine.t, c.o.observation.t
    in_av = k.av.count(m) > 0
    return k, m, ob, in_av, z3.And(z3.Not(in_av), k.key(ob))


def _smo_ens(c):
    k, m, ob, in_av, in_res = _smo_case(c)
    n = CV(c.n.self)
    ingest = c.o.ingest.t
    def pool_plus(delta):
        return z3.And(
            z3.If(ingest, z3.And(n.ing.cnt == upd(k.ing.cnt, m, delta), n.ing.n == k.ing.n + delta, same_list(n.occ, k.occ)),
                  z3.And(n.occ.cnt == upd(k.occ.cnt, m, delta), n.occ.n == k.occ.n + delta, same_list(n.ing, k.ing))))
    return [
        ('result', c.result.t == z3.Or(in_av, in_res)),
        ('from-available', z3.Implies(in_av, z3.And(n.av.cnt == upd(k.av.cnt, m, -1), n.av.n == k.av.n - 1, pool_plus(1),
                                                    same_idle(n.idle, k.idle)))),
        ('from-reservation', z3.Implies(in_res, z3.And(
            same_list(n.av, k.av), pool_plus(1), n.idle.keys == k.idle.keys, n.idle.nk == k.idle.nk,
            n.idle.vcnt == z3.Store(k.idle.vcnt, ob, upd(z3.Select(k.idle.vcnt, ob), m, -1)),
            n.idle.vn == upd(k.idle.vn, ob, -1)))),
        ('refused-unchanged', z3.Implies(z3.Not(z3.Or(in_av, in_res)), z3.And(
            same_list(n.av, k.av), same_list(n.ing, k.ing), same_list(n.occ, k.occ), same_idle(n.idle, k.idle)))),
    ]


REG.contract('Cluster._set_machine_occupied', params={'machine': 'Machine', 'observation': 'str', 'ingest': 'bool'},
             fix={'c': 'default'}, invariants=False, ensures=_smo_ens, result='bool', modifies=RES,
             raises={'ValueError': dict(when=lambda c: z3.And(_smo_case(c)[4], CV(c.o.self).idl(c.o.observation.t, c.o.machine.t) <= 0))},
             props=['C02', 'C01', 'C09'])


def _sma_pool(c):
    k = CV(c.o.self)
    return z3.If(c.o.ingest.t, k.ing.count(c.o.machine), k.occ.count(c.o.machine))


def _sma_ens(c):
    k, n = CV(c.o.self), CV(c.n.self)
    m, ob, ingest = c.o.machine.t, c.o.observation.t, c.o.ingest.t
    return [
        ('leaves-its-pool', z3.If(ingest, z3.And(n.ing.cnt == upd(k.ing.cnt, m, -1), n.ing.n == k.ing.n - 1, same_list(n.occ, k.occ)),
                                  z3.And(n.occ.cnt == upd(k.occ.cnt, m, -1), n.occ.n == k.occ.n - 1, same_list(n.ing, k.ing)))),
        ('C09-back-to-its-reservation', z3.Implies(k.key(ob), z3.And(
            same_list(n.av, k.av), n.idle.keys == k.idle.keys, n.idle.nk == k.idle.nk,
            n.idle.vcnt == z3.Store(k.idle.vcnt, ob, upd(z3.Select(k.idle.vcnt, ob), m, 1)), n.idle.vn == upd(k.idle.vn, ob, 1)))),
        ('or-back-to-available', z3.Implies(z3.Not(k.key(ob)), z3.And(
            n.av.cnt == upd(k.av.cnt, m, 1), n.av.n == k.av.n + 1, same_idle(n.idle, k.idle)))),
    ]


REG.contract('Cluster._set_machine_available', params={'machine': 'Machine', 'observation': 'str', 'ingest': 'bool'},
             fix={'c': 'default'}, invariants=False, ensures=_sma_ens, modifies=RES,
             raises={'ValueError': dict(when=lambda c: _sma_pool(c) <= 0)}, props=['C02', 'C01', 'C09'])


def _air_ens(c):
    k, n = CV(c.o.self), CV(c.n.self)
    m, ob = c.o.machine.t, c.o.observation.t
    base_cnt = z3.If(k.key(ob), z3.Select(k.idle.vcnt, ob), z3.K(I, z3.IntVal(0)))
    base_n = z3.If(k.key(ob), k.idn(ob), z3.IntVal(0))
    return [('C09-moves-available-to-reservation', z3.And(
        n.av.cnt == upd(k.av.cnt, m, -1), n.av.n == k.av.n - 1,
        n.idle.keys == z3.Store(k.idle.keys, ob, z3.BoolVal(True)), n.idle.nk == z3.If(k.key(ob), k.idle.nk, k.idle.nk + 1),
        n.idle.vcnt == z3.Store(k.idle.vcnt, ob, upd(base_cnt, m, 1)), n.idle.vn == z3.Store(k.idle.vn, ob, base_n + 1)))]


REG.contract('Cluster._add_idle_resource', params={'observation': 'str', 'machine': 'Machine'}, fix={'c': 'default'},
             invariants=False, ensures=_air_ens, modifies=['self._resources.available', 'self._resources.idle'],
             raises={'RuntimeError': dict(when=lambda c: CV(c.o.self).av.count(c.o.machine) <= 0, unchanged=False)},
             props=['C02', 'C09'])

REG.contract('Cluster._remove_available_resource', params={'machine': 'Machine'}, fix={'c': 'default'}, invariants=False,
             ensures=lambda c: [('removed-once', z3.And(CV(c.n.self).av.cnt == upd(CV(c.o.self).av.cnt, c.o.machine.t, -1),
                                                        CV(c.n.self).av.n == CV(c.o.self).av.n - 1))],
             modifies=['self._resources.available'],
             raises={'ValueError': dict(when=lambda c: CV(c.o.self).av.count(c.o.machine) <= 0)}, props=['C02'])


def _rir_ens(c):
    k, n = CV(c.o.self), CV(c.n.self)
    ob = c.o.observation.t
    nonempty = k.idn(ob) > 0
    return [('pops-nonempty-reservation', z3.Implies(nonempty, z3.And(
        n.idle.keys == z3.Store(k.idle.keys, ob, z3.BoolVal(False)), n.idle.nk == k.idle.nk - 1,
        n.idle.vcnt == k.idle.vcnt, n.idle.vn == k.idle.vn, n.npo.t == k.npo.t - 1))),
            ('keeps-empty-reservation', z3.Implies(z3.Not(nonempty), z3.And(same_idle(n.idle, k.idle), n.npo.t == k.npo.t)))]


REG.contract('Cluster._reset_idle_resources', params={'observation': 'str'}, fix={'c': 'default'}, invariants=False,
             requires=lambda c: [('reservation-exists', CV(c.o.self).key(c.o.observation.t))],
             ensures=_rir_ens, modifies=['self._resources.idle', 'self.num_provisioned_obs'], props=['C02', 'C09'])


def _uar_ens(c):
    k, n = CV(c.o.self), CV(c.n.self)
    ob = c.o.observation.t
    return [('appends-the-reservation', Q([('m', I)], lambda m: n.av.count(m) == k.av.count(m) + z3.If(k.key(ob), k.idl(ob, m), 0))),
            ('length-grows-by-reservation', n.av.n == k.av.n + z3.If(k.key(ob), k.idn(ob), 0))]


REG.contract('Cluster._update_available_resources', params={'observation': 'str'}, fix={'c': 'default'}, invariants=False,
             ensures=_uar_ens, modifies=['self._resources.available'], props=['C02', 'C09'])


def _uar_inv(c):
    vis = c.x['visited']
    n, o = CV(c.n.self), CV(c.o.self)
    return [('available-grows-by-visited', Q([('m', I)], lambda m: n.av.count(m) == o.av.count(m) + z3.Select(vis.cnt, m))),
            ('length-grows-by-visited', n.av.n == o.av.n + vis.n)]


REG.loop('Cluster._update_available_resources', 0, inv=_uar_inv, modifies_locals=['m'],
         modifies=['self._resources.available'], props=['C02', 'C09'])


# ---------------------------------------------------------------------------------------------- public batch operations
def _rel_ens(c):
    k, n = CV(c.o.self), CV(c.n.self)
    ob = c.o.observation.t
    live = z3.And(k.key(ob), k.idn(ob) > 0)
    return [('C09-whole-reservation-returns', Q([('m', I)], lambda m: z3.Implies(live, n.av.count(m) == k.av.count(m) + k.idl(ob, m)))),
            ('C09-reservation-gone', z3.Implies(live, z3.And(z3.Not(n.key(ob)), n.npo.t == k.npo.t - 1))),
            ('C09-other-reservations-kept', Q([('o', I)], lambda o: z3.Implies(z3.And(live, o != ob), z3.And(
                n.key(o) == k.key(o), z3.Select(n.idle.vcnt, o) == z3.Select(k.idle.vcnt, o), n.idn(o) == k.idn(o))))),
            ('C02-otherwise-unchanged', z3.Implies(z3.Not(live), z3.And(same_list(n.av, k.av), same_idle(n.idle, k.idle), n.npo.t == k.npo.t))),
            ('busy-pools-untouched', z3.And(same_list(n.ing, k.ing), same_list(n.occ, k.occ)))]


REG.contract('Cluster.release_batch_resources', params={'observation': 'str'}, fix={'c': 'default'}, ensures=_rel_ens,
             modifies=['self._resources.available', 'self._resources.idle', 'self.num_provisioned_obs'],
             props=['C02', 'C09', 'C12', 'C04'])

REG.contract('Cluster.clean_up_ingest', fix={'c': 'default'},
             ensures=lambda c: [('status-cleared', z3.Not(c.n.self._ingest['status'].t))],
             modifies=['self._ingest.completed', 'self._ingest.status'], props=['C02'])

# __init__ establishes the invariant
REG.contract('Cluster.__init__', params={'env': 'env', 'config': 'obj:Config'},
             requires=lambda c: _config.well_formed_json(Ctx(c.eng, SVself(c, c.o.config), None)) + _config.positive_speeds(Ctx(c.eng, SVself(c, c.o.config), None)),
             raises={'KeyError': dict(when=None, unchanged=False)},
             world=lambda eng: {'self': __import__('pyvc.state', fromlist=['ObjV']).ObjV('Cluster', {}, 'Cluster')},
             ensures=lambda c: [('C02-all-machines-available', z3.And(same_list(CV(c.n.self).av, CV(c.n.self).M),
                                                                     CV(c.n.self).ing.n == 0, CV(c.n.self).occ.n == 0,
                                                                     CV(c.n.self).idle.nk == 0))],
             invariants='post', modifies=['*'], props=['C02', 'C12'])


# ================================================================================================ generators
from pyvc.state import GenV, ProcV   # noqa: E402
from .task import TS   # noqa: E402

# extra invariant clauses linking the task maps (C02 'fin', C04 at-most-once)
def task_map_invariant(v, sv):
    k = CV(v)
    st = lambda t: z3.Select(sv.heap('Task', 'task_status'), t)
    return [
        ('running-list-nodup', Q([('t', I)], lambda t: z3.And(k.run.count(t) >= 0, k.run.count(t) <= 1))),
        ('running-tasks-not-finished', Q([('t', I)], lambda t: z3.Implies(k.run.count(t) > 0, z3.And(
            t > 0, z3.Not(z3.And(k.fin.has(t), z3.Select(k.fin.vals, t))))))),
        ('C04-running-tasks-are-scheduled-or-running', Q([('t', I)], lambda t: z3.Implies(k.run.count(t) > 0, z3.Or(
            st(t) == TS('SCHEDULED'), st(t) == TS('RUNNING'))))),
        ('C04-finished-in-the-map-means-finished', Q([('t', I)], lambda t: z3.Implies(
            z3.And(k.fin.has(t), z3.Select(k.fin.vals, t)), st(t) == TS('FINISHED')))),
        # GreedySchedulingFromPlan takes the KEYS of the finished map for 'finished': only ingest tasks (nobody's predecessor)
        # may be recorded there with False
        ('C03-only-ingest-tasks-are-recorded-unfinished-in-the-finished-map', Q([('t', I)], lambda t: z3.Implies(
            z3.And(k.fin.has(t), z3.Not(z3.Select(k.fin.vals, t))), z3.Select(sv.heap('Task', 'ghost_ingest'), t)))),
    ]


def ingest_counter_invariant(v, sv):
    """C12/C02: the reported number of machines on ingest is the true one, up to ingest allocations that were spawned in
    this timestep and have not started yet (S3: they start before anything else can observe the state)"""
    k = CV(v)
    pcnt, pn = sv.pending('pend_ingest')
    return [('pending-ingest-allocations-hold-ingest-machines', Q([('m', I)], lambda m: z3.And(
        z3.Select(pcnt, m) >= 0, z3.Select(pcnt, m) <= k.ing.count(m)))),
            ('C12-C02-ingest-counter-true', k.u['ingest'].t == z3.ToReal(k.ing.n - pn))]


REG.spawn_ghosts.append(('Cluster.allocate_task_to_cluster', lambda eng, args: eng.truth(args['ingest']), 'pend_ingest',
                         lambda eng, args: args['machine'].t))


def cluster_invariant(v, sv):   # noqa: F811  (extends the definition above)
    return pool_invariant(v, sv) + counter_invariant(v, sv) + task_map_invariant(v, sv) + ingest_counter_invariant(v, sv)


REG.invariants['Cluster'] = cluster_invariant


def _machine_run_effect(eng, vals, result):
    """Machine.run spawns task.do_work(env, machine, predecessor_allocations) and returns the process"""
    g = GenV('Task.do_work', vals['task'], {'self': vals['task'], 'env': vals['env'], 'machine': vals['self'],
                                           'predecessor_allocations': vals['predecessor_allocations']})
    return eng.spawn(g, None)


def _io_isnum(sv, t):
    """Task.io is a union field: a dict of transfer volumes (workflow tasks), None (default) or a number (ingest tasks: 0)"""
    return z3.Select(sv.heap('Task', 'io.isnum', B), t)


def _io_num(sv, t):
    return z3.Select(sv.heap('Task', 'io.num', R), t)


MACHINE_LOAD = ['heap:Machine.cpu', 'heap:Machine.memory', 'heap:Machine.disk', 'heap:Machine.status', 'heap:Machine.current_task']


def _mstore(c, field, val):
    return c.n.heap('Machine', field) == z3.Store(c.o.heap('Machine', field), c.o.self.t, val)


def _mrt_ens(c, sign):
    o = c.o
    m, t = o.self, o.task_instance
    return [('cpu', _mstore(c, 'cpu', m.cpu.t + sign * t.flops.t)),
            ('memory', _mstore(c, 'memory', m.memory.t + sign * t.task_data.t)),
            ('disk', _mstore(c, 'disk', m.disk.t + sign * _io_num(o, t.t)))]


MS = lambda m: enum_code('Status', m)

REG.contract('Machine.run_task', params={'task_instance': 'Task'},
             requires=lambda c: [('task-io-is-a-number', _io_isnum(c.o, c.o.task_instance.t))],
             ensures=lambda c: _mrt_ens(c, -1) + [('in-use', _mstore(c, 'status', MS('IN_USE'))),
                                                  ('current-task', _mstore(c, 'current_task', c.o.task_instance.t))],
             modifies=MACHINE_LOAD, invariants=False, props=['C01'])
REG.contract('Machine.stop_task', params={'task_instance': 'Task'},
             requires=lambda c: [('task-io-is-a-number', _io_isnum(c.o, c.o.task_instance.t))],
             ensures=lambda c: _mrt_ens(c, 1) + [('idle', _mstore(c, 'status', MS('IDLE'))),
                                                 ('no-current-task', _mstore(c, 'current_task', z3.IntVal(0)))],
             modifies=MACHINE_LOAD, invariants=False, props=['C01'])


def _mrun_ens(c):
    """Machine.run(task): loads the machine, starts exactly one do_work(env, this machine, predecessor_allocations) for the
    task, unloads the machine again (capacities back to what they were) and returns that process"""
    o = c.o
    out = []
    if 'spawns' in c.x:
        # verification of the body (at a call site the spawn is the contract's `effect`, which starts exactly this process)
        sp = [(g, p) for g, p, nd in c.x['spawns'] if g.qual == 'Task.do_work']
        one = len(sp) == 1 and len(c.x['spawns']) == 1
        out.append(('C01-exactly-one-execution-started', z3.BoolVal(one)))
        if one:
            g, p = sp[0]
            out += [('C01-it-executes-this-task-on-this-machine', z3.And(g.args['self'].t == o.task.t, g.args['machine'].t == o.self.t)),
                    ('returns-that-process', z3.BoolVal(c.result._v is p))]
    out += [('capacities-restored', z3.And(c.n.heap('Machine', 'cpu') == c.o.heap('Machine', 'cpu'),
                                           c.n.heap('Machine', 'memory') == c.o.heap('Machine', 'memory'),
                                           c.n.heap('Machine', 'disk') == c.o.heap('Machine', 'disk'))),
            ('idle-again', z3.And(_mstore(c, 'status', MS('IDLE')), _mstore(c, 'current_task', z3.IntVal(0))))]
    return out


REG.contract('Machine.run', params={'task': 'Task', 'env': 'env', 'predecessor_allocations': 'any'},
             requires=lambda c: [('C01-task-is-scheduled', c.o.task.task_status.t == TS('SCHEDULED')),
                                 ('task-io-is-a-number', _io_isnum(c.o, c.o.task.t))],
             ensures=_mrun_ens, effect=_machine_run_effect, modifies=['heap:Machine.status', 'heap:Machine.current_task'],
             props=['C01', 'C04'],
             note="body verified (was an assumed contract): run_task / stop_task subtract and re-add task.io, which is a number "
                  "only for ingest tasks (a dict for workflow tasks: TypeError) - hence the precondition; exactly one do_work")
REG.loop('Machine.run', 0, inv=lambda c: [('task-still-scheduled', c.n.task.task_status.t == TS('SCHEDULED')),
                                          ('task-io-still-a-number', _io_isnum(c.n, c.n.task.t))],
         modifies_locals=['ret'], modifies=[], props=['C01'])


def _atc_accept(c):
    """the membership test of allocate_task_to_cluster, as the property states it: a workflow task needs a machine that is
    available or reserved-idle for its own observation; an ingest task needs the machine it was given in the ingest pool"""
    k = CV(c.o.self)
    m, ob = c.o.machine.t, c.o.observation.t
    return z3.If(c.o.ingest.t, k.ing.count(m) > 0, z3.Or(k.av.count(m) > 0, z3.And(k.key(ob), k.idl(ob, m) > 0)))


def _atc_req(c):
    k = CV(c.o.self)
    t = c.o.task
    return [('C03-an-ingest-allocation-is-for-an-ingest-task', z3.Implies(c.o.ingest.t, t.ghost_ingest.t)),
            ('an-ingest-task-carries-a-number-for-io', z3.Implies(c.o.ingest.t, _io_isnum(c.o, t.t))),
            ('C04-task-not-run-before', z3.And(k.run.count(t) == 0, z3.Not(z3.And(k.fin.has(t), z3.Select(k.fin.vals, t.t))))),
            ('task-is-an-object', t.t > 0)]


def _atc_y(c):
    v = c.n
    k = CV(v.self)
    t, m = v.task, v.machine.t
    return [('task-is-running', k.run.count(t) == 1),
            ('C01-machine-held-by-this-task', z3.If(v.ingest.t, z3.And(k.ing.count(m) > 0, z3.Select(v.pending('pend_ingest')[0], m) == 0),
                                                    k.occ.count(m) > 0)),
            ('one-step-wait', v['_ydelay'].t == 1)]


def _atc_step(c):
    o, n = c.o, c.n
    k0, k1 = CV(o.self), CV(n.self)
    m, t = o.machine.t, o.task
    frm, to = c.x['frm'], c.x['to']
    out = []
    if frm == -1 and to in (0, 1):
        sp = [g for g, p, nd in c.x['spawns'] if g.qual == 'Task.do_work']
        out.append(('C01-exactly-one-execution-started-on-this-machine',
                    z3.BoolVal(len(sp) == 1) if len(sp) != 1 else z3.And(sp[0].args['machine'].t == m, sp[0].args['self'].t == t.t)))
        out.append(('C01-workflow-machine-was-free-and-is-now-occupied', z3.Implies(z3.Not(o.ingest.t), z3.And(
            k0.occ.count(m) == 0, k0.ing.count(m) == 0, k1.occ.count(m) == 1))))
        out.append(('C01-ingest-machine-stays-in-the-ingest-pool', z3.Implies(o.ingest.t, z3.And(k1.ing.count(m) > 0, same_list(k1.ing, k0.ing)))))
        out.append(('C04-task-becomes-scheduled', n.task.task_status.t == TS('SCHEDULED')))
    if to == 'return':
        ob = o.observation.t
        out.append(('C04-task-finished', z3.And(n.task.task_status.t == TS('FINISHED'), k1.run.count(t) == 0,
                                                k1.fin.has(t), z3.Select(k1.fin.vals, t.t))))
        out.append(('C01-C02-machine-released', z3.If(o.ingest.t, z3.And(k1.ing.count(m) == k0.ing.count(m) - 1, k1.av.count(m) == k0.av.count(m) + 1),
                                                  z3.And(k1.occ.count(m) == k0.occ.count(m) - 1,
                                                         z3.If(k0.key(ob), k1.idl(ob, m) == k0.idl(ob, m) + 1, k1.av.count(m) == k0.av.count(m) + 1)))))
    return out


REG.contract('Cluster.allocate_task_to_cluster',
             params={'task': 'Task', 'machine': 'Machine', 'predecessor_allocations': 'list:Task', 'observation': 'str', 'ingest': 'bool'},
             fix={'c': 'default'}, locals_types={'ret': 'proc'},
             requires=_atc_req, yields={0: _atc_y, 1: _atc_y}, step=_atc_step,
             raises={'RuntimeError': dict(when=lambda c: z3.Not(_atc_accept(c)))},
             modifies=RES + ['self._tasks.running', 'self._tasks.finished', 'self._usage_data.available', 'self._usage_data.running_tasks',
                             'self._usage_data.ingest', 'self._usage_data.finished_tasks', 'heap:Task.task_status', 'heap:Task.delay_flag',
                             'heap:Machine.status', 'heap:Machine.current_task'],
             props=['C01', 'C02', 'C04', 'C09', 'C12', 'C03'])


# ---------------------------------------------------------------------------------------------- provision_batch_resources
AT = z3.Function('at', I, I, I)


def _pbr_inv(c):
    n, o = c.n, c.o
    k0, k1 = CV(o.self), CV(n.self)
    nm = o.name.t
    i = c.x['i']
    L = n['available_resources'].val
    c.eng.seq_facts(L)
    seq = L.seq
    ii = z3.ToInt(i)
    base = lambda x: z3.If(k0.key(nm), k0.idl(nm, x), 0)
    basen = z3.If(k0.key(nm), k0.idn(nm), 0)
    return [
        ('index-nonneg', i >= 0),
        ('nothing-moved-before-the-first-iteration', z3.Implies(ii == 0, z3.And(same_list(k1.av, k0.av), same_idle(k1.idle, k0.idle)))),
        ('size-within-the-copy', z3.Or(n['size'].t <= z3.ToReal(L.n), n['size'].t <= 0, L.n == 0)),
        ('copy-is-the-old-available-pool', z3.And(L.cnt == k0.av.cnt, L.n == k0.av.n)),
        ('conservation', Q([('x', I)], lambda x: k1.av.count(x) + z3.If(k1.key(nm), k1.idl(nm, x), 0) == k0.av.count(x) + base(x))),
        ('moved-items', Q([('j', I)], lambda j: z3.Implies(z3.And(0 <= j, j < ii), z3.And(
            k1.av.count(AT(seq, j)) == 0, k1.idl(nm, AT(seq, j)) == base(AT(seq, j)) + 1)))),
        ('others-untouched', Q([('x', I)], lambda x: z3.Or(
            z3.Exists([z3.Int('jw')], z3.And(0 <= z3.Int('jw'), z3.Int('jw') < ii, AT(seq, z3.Int('jw')) == x)),
            z3.And(k1.av.count(x) == k0.av.count(x), z3.If(k1.key(nm), k1.idl(nm, x), 0) == base(x))))),
        ('lengths', z3.And(k1.av.n == k0.av.n - ii, z3.If(k1.key(nm), k1.idn(nm), 0) == basen + ii)),
        ('keys', Q([('ob', I)], lambda ob: z3.Implies(ob != nm, z3.And(k1.key(ob) == k0.key(ob),
                                                                       z3.Select(k1.idle.vcnt, ob) == z3.Select(k0.idle.vcnt, ob),
                                                                       k1.idn(ob) == k0.idn(ob))))),
        ('key-of-this-observation', z3.If(ii > 0, k1.key(nm), k1.key(nm) == k0.key(nm))),
        ('busy-pools-untouched', z3.And(same_list(k1.ing, k0.ing), same_list(k1.occ, k0.occ))),
    ]


def _pbr_ens(c):
    k0, k1 = CV(c.o.self), CV(c.n.self)
    nm = c.o.name.t
    size = c.o.size.t
    taken = z3.If(size <= 0, 0, z3.If(size <= z3.ToReal(k0.av.n), z3.ToInt(size), k0.av.n))
    base = lambda x: z3.If(k0.key(nm), k0.idl(nm, x), 0)
    return [('C09-draws-only-from-the-available-pool', Q([('x', I)], lambda x: z3.And(
        k1.av.count(x) + z3.If(k1.key(nm), k1.idl(nm, x), 0) == k0.av.count(x) + base(x), k1.av.count(x) <= k0.av.count(x)))),
            ('C09-takes-min-of-size-and-free', z3.And(k1.av.n == k0.av.n - taken)),
            ('C09-other-reservations-untouched', Q([('ob', I)], lambda ob: z3.Implies(ob != nm, z3.And(
                k1.key(ob) == k0.key(ob), z3.Select(k1.idle.vcnt, ob) == z3.Select(k0.idle.vcnt, ob))))),
            ('busy-pools-untouched', z3.And(same_list(k1.ing, k0.ing), same_list(k1.occ, k0.occ))),
            ('counts-one-more-provision', k1.npo.t == k0.npo.t + 1), ('returns-true', c.result.t)]


REG.contract('Cluster.provision_batch_resources', params={'size': 'int', 'name': 'str'}, fix={'c': 'default'},
             ensures=_pbr_ens, result='bool', raises={'IndexError': dict(when=lambda c: z3.And(c.o.size.t > 0, CV(c.o.self).av.n == 0))},
             modifies=['self._resources.available', 'self._resources.idle', 'self.num_provisioned_obs'],
             props=['C02', 'C09', 'C12'])
REG.loop('Cluster.provision_batch_resources', 0, inv=_pbr_inv, modifies_locals=['m'],
         modifies=['self._resources.available', 'self._resources.idle'], props=['C02', 'C09'])


# ---- Cluster.run: the per-timestep housekeeping loop
REG.contract('Cluster.run', yields={0: lambda c: [('one-step-wait', c.n['_ydelay'].t == 1)]},
             modifies=['self.events', 'self._usage_data.ingest', 'self._ingest.demand'], props=['C02', 'C12'])


def _cluster_to_df(c):
    k = CV(c.o.self)
    r = c.result
    return [('C12-machines-not-running-a-task', r['available_resources'].t == k.total.t - z3.ToReal(k.run.n)),
            ('C12-machines-on-ingest', r['ingest_resources'].t == z3.ToReal(k.ing.n - c.o.pending('pend_ingest')[1])),
            ('C12-running-tasks', r['running_tasks'].t == z3.ToReal(k.run.n)),
            ('C12-finished-tasks', r['finished_tasks'].t == z3.ToReal(CARDTRUE(k.fin.keys, k.fin.vals))),
            ('C12-live-reservations', r['provisioned_observations'].t == z3.ToReal(k.idle.nk))]


REG.contract('Cluster.to_df', ensures=_cluster_to_df, props=['C12'],
             result='frame:available_resources=num;ingest_resources=num;running_tasks=num;finished_tasks=num;provisioned_observations=num')
REG.contract('Cluster.get_machine_from_id', params={'id': 'str'}, fix={'c': 'default'},
             ensures=lambda c: [('is-the-registered-machine', c.result.t == z3.Select(c.o.self.machine_ids.vals, c.o.id.t))],
             raises={'KeyError': dict(when=lambda c: z3.Not(z3.Select(c.o.self.machine_ids.keys, c.o.id.t)))},
             result='ref:Machine', props=['C17'])


# ---------------------------------------------------------------------------------------------- ingest provisioning
TASK_FIELDS = ['id', 'est', 'eft', 'ast', 'aft', 'allocated_machine_id', 'duration', 'est_duration', 'delay_flag', 'task_status',
               'pred', 'delay', 'delay_offset', 'workflow_offset', 'graph_id', 'flops', 'task_data', 'io']


def _ingest_task_facts(sv, t, obs):
    H = lambda f: z3.Select(sv.heap('Task', f), t)
    return z3.And(H('duration') == obs.duration.t, H('task_status') == TS('SCHEDULED'), H('flops') == 0, H('task_data') == 0,
                  H('delay') == 0, _io_isnum(sv, t), _io_num(sv, t) == 0)


def _git_inv(c):
    n = c.n
    tasks = n['tasks']
    alloc = c.eng.alloc()
    alloc_pre = c.x['pre']._s.ghost.get('alloc', c.eng.alloc0())
    return [('one-task-per-index', tasks.n == z3.ToInt(c.x['i'])),
            ('C06-ingest-tasks-last-the-observation', Q([('t', I)], lambda t: z3.Implies(tasks.count(t) > 0, z3.And(
                t > 0, tasks.count(t) == 1, z3.Select(alloc, t), z3.Not(z3.Select(alloc_pre, t)), _ingest_task_facts(n, t, n.observation))))),
            ('old-objects-stay-allocated', Q([('x', I)], lambda x: z3.Implies(z3.Select(alloc_pre, x), z3.Select(alloc, x)))),
            ('existing-tasks-keep-their-status', Q([('x', I)], lambda x: z3.Implies(z3.Select(alloc_pre, x), z3.Select(
                n.heap('Task', 'task_status'), x) == z3.Select(c.x['pre'].heap('Task', 'task_status'), x))))]


def _git_ens(c):
    res = c.result
    alloc_pre = c.o._s.ghost.get('alloc', c.eng.alloc0())
    gi0, gi1 = c.o.heap('Task', 'ghost_ingest'), c.n.heap('Task', 'ghost_ingest')
    return [('ghost-the-new-tasks-are-ingest-tasks', Q([('t', I)], lambda t: z3.Select(gi1, t) == z3.If(res.count(t) > 0, True, z3.Select(gi0, t)))),
            ('one-task-per-machine', res.n == z3.If(c.o.demand.t > 0, z3.ToInt(c.o.demand.t), 0)),
            ('existing-tasks-keep-their-status', Q([('x', I)], lambda x: z3.Implies(z3.Select(alloc_pre, x), z3.Select(
                c.n.heap('Task', 'task_status'), x) == z3.Select(c.o.heap('Task', 'task_status'), x)))),
            ('C06-ingest-tasks-last-the-observation', Q([('t', I)], lambda t: z3.Implies(res.count(t) > 0, z3.And(
                t > 0, res.count(t) == 1, z3.Not(z3.Select(alloc_pre, t)), _ingest_task_facts(c.n, t, c.o.observation)))))]


def _git_ghost(eng, names):
    """ghost statement at return: every task of the returned list is marked as an ingest task"""
    st = eng.st
    res = st.locals.get('tasks')
    g0 = eng.heap_arr(st, 'Task', 'ghost_ingest', B)
    g1 = z3.Const(fresh_name_('ghost_ingest'), g0.sort())
    t = z3.Int(fresh_name_('gt'))
    st.assume(z3.ForAll([t], z3.Select(g1, t) == z3.If(z3.Select(res.cnt, t) > 0, True, z3.Select(g0, t))))
    st.heap[('Task', 'ghost_ingest')] = g1


def fresh_name_(b):
    from pyvc.state import fresh_name
    return fresh_name(b)


REG.contract('Cluster._generate_ingest_tasks', params={'demand': 'int', 'observation': 'Observation'},
             requires=lambda c: [('duration-nonneg', c.o.observation.duration.t >= 0)], ghost=_git_ghost,
             ensures=_git_ens, result='list:Task', modifies=['heap:Task.' + f for f in TASK_FIELDS + ['ghost_ingest']] + ['ghost:alloc'],
             props=['C06', 'C08', 'C01'])
REG.loop('Cluster._generate_ingest_tasks', 0, inv=_git_inv, modifies_locals=['i', 't'],
         modifies=['tasks', 'ghost:alloc'] + ['heap:Task.' + f for f in TASK_FIELDS], props=['C06', 'C08'])

PAIR = z3.Function('pair', I, I, I)
FST = z3.Function('fst', I, I)
SND = z3.Function('snd', I, I)


def _pir_inv0(c):
    """for i, machine in enumerate(temp_ingest_resources): pairs.append((machine, tasks[i]))"""
    n = c.n
    vis = c.x['visited']
    P = n['pairs']
    tasks = n['tasks'].val
    c.eng.seq_facts(tasks)
    seq = tasks.seq
    jw = z3.Int('jw')
    return [('one-pair-per-visited-machine', P.n == vis.n),
            ('pairs-well-formed', Q([('p', I)], lambda p: z3.Implies(P.count(p) > 0, z3.And(
                P.count(p) == 1, z3.Select(vis.cnt, FST(p)) >= 1,
                z3.Exists([jw], z3.And(0 <= jw, jw < vis.n, SND(p) == AT(seq, jw))))))),
            ('pairs-use-distinct-machines-and-tasks', Q([('p', I), ('q', I)], lambda p, q: z3.Implies(
                z3.And(P.count(p) > 0, P.count(q) > 0, p != q), z3.And(FST(p) != FST(q), SND(p) != SND(q)))))]


def _fst_in(bagcnt, m):
    pw = z3.Int('pw')
    return z3.Exists([pw], z3.And(z3.Select(bagcnt, pw) > 0, FST(pw) == m))


def _pir_inv2(c):
    """for pair in pairs: ingest.append(machine); available.remove(machine); spawn allocate_task_to_cluster(ingest=True)"""
    n, o = c.n, c.x['pre']
    k0, k1 = CV(o.self), CV(n.self)
    vis = c.x['visited']
    d = lambda m: z3.If(_fst_in(vis.cnt, m), 1, 0)
    p0c, p0n = o.pending('pend_ingest')
    p1c, p1n = n.pending('pend_ingest')
    return [('available-loses-the-visited-machines', Q([('m', I)], lambda m: k1.av.count(m) == k0.av.count(m) - d(m))),
            ('ingest-gains-the-visited-machines', Q([('m', I)], lambda m: k1.ing.count(m) == k0.ing.count(m) + d(m))),
            ('pending-gains-the-visited-machines', Q([('m', I)], lambda m: z3.Select(p1c, m) == z3.Select(p0c, m) + d(m))),
            ('lengths', z3.And(k1.av.n == k0.av.n - vis.n, k1.ing.n == k0.ing.n + vis.n, p1n == p0n + vis.n))]


def _pir_body2(c):
    """each iteration spawns exactly one ingest allocation for (task, machine) of the pair"""
    sp = [g for g, p, nd in c.x['spawns'] if g.qual == 'Cluster.allocate_task_to_cluster']
    if len(sp) != 1:
        return [('C08-one-allocation-per-ingest-machine', z3.BoolVal(False))]
    g = sp[0]
    n = c.n
    k1 = CV(n.self)
    t, m = g.args['task'], g.args['machine']
    return [('C08-one-allocation-per-ingest-machine', c.eng.truth(g.args['ingest'])),
            ('C01-its-machine-is-in-the-ingest-pool', k1.ing.count(m) > 0),
            ('C04-its-task-has-not-run', z3.And(k1.run.count(t) == 0, z3.Not(z3.And(k1.fin.has(t), z3.Select(k1.fin.vals, t.t))))),
            ('C03-its-task-is-an-ingest-task', z3.Select(n.heap('Task', 'ghost_ingest'), t.t))]


def _pir_req(c):
    return [('demand-whole', z3.IsInt(c.o.demand.t)), ('duration-nonneg', c.o.observation.duration.t >= 0)]


def _pir_step(c):
    o, n = c.o, c.n
    k0, k1 = CV(o.self), CV(n.self)
    d = o.demand.t
    out = []
    if c.x['to'] == 0:
        out += [('C08-takes-exactly-the-demand-from-the-available-pool', z3.Implies(d >= 0, z3.And(
            z3.ToReal(k1.av.n) == z3.ToReal(k0.av.n) - d, z3.ToReal(k1.ing.n) == z3.ToReal(k0.ing.n) + d))),
                ('C01-C08-only-available-machines-go-to-ingest', Q([('m', I)], lambda m: z3.And(
                    k1.av.count(m) <= k0.av.count(m), k1.ing.count(m) - k0.ing.count(m) == k0.av.count(m) - k1.av.count(m)))),
                ('reservations-and-occupied-untouched', z3.And(same_list(k1.occ, k0.occ), same_idle(k1.idle, k0.idle)))]
    return out


REG.contract('Cluster.provision_ingest_resources', params={'demand': 'int', 'observation': 'Observation'}, fix={'c': 'default'},
             locals_types={}, requires=_pir_req,
             yields={0: lambda c: [('one-step-wait', c.n['_ydelay'].t == 1)]}, step=_pir_step,
             raises={'RuntimeError': dict(when=lambda c: c.o.demand.t > z3.ToReal(CV(c.o.self).av.n))},
             modifies=['self._resources.available', 'self._resources.ingest', 'self._ingest.status', 'self._ingest.demand',
                       'ghost:alloc'] + ['heap:Task.' + f for f in TASK_FIELDS + ['ghost_ingest']],
             props=['C08', 'C01', 'C02', 'C12'])
REG.loop('Cluster.provision_ingest_resources', 0, inv=_pir_inv0, modifies_locals=['i', 'machine'], modifies=['pairs'],
         elem_types={'pairs': 'pair:Machine,Task'},
         props=['C08', 'C01'])
REG.loop('Cluster.provision_ingest_resources', 2, inv=_pir_inv2, body=_pir_body2,
         modifies_locals=['pair', 'machine', 'task', 'ret'],
         modifies=['self._resources.available', 'self._resources.ingest', 'ghost:pend_ingest.cnt', 'ghost:pend_ingest.n'],
         props=['C08', 'C01', 'C02'])


# ================================================================================================ rely / guarantee (C01)
from pyvc.spec import Carried   # noqa: E402
from pyvc.state import ObjV as _ObjV   # noqa: E402


def find_cluster(names):
    seen = set()

    def rec(v):
        if isinstance(v, _ObjV):
            if id(v) in seen:
                return None
            seen.add(id(v))
            if v.cls == 'Cluster':
                return v
            for x in v.fields.values():
                r = rec(x)
                if r is not None:
                    return r
        return None
    for v in names.values():
        r = rec(v)
        if r is not None:
            return r
    return None


def _holds_machine(sv, p, names):
    """what a live allocation process (another instance) knows while suspended: its task is in the running list exactly once,
    its machine is in the occupied pool (workflow) or in the ingest pool and not pending (ingest)"""
    cl = find_cluster(names)
    if cl is None:
        return None
    k = CV(sv.of(cl))
    t, m, ing = p['ft'], p['fm'], p['fingest'].t
    pend = sv.pending('pend_ingest')[0]
    return z3.And(k.run.count(t) == 1, z3.If(ing, z3.And(k.ing.count(m) > 0, z3.Select(pend, m.t) == 0), k.occ.count(m) > 0))


def _other_instance(sv, p, names, qual, frm):
    """the foreign instance is not the one being verified: a different task and a different machine.
    (Different tasks: C04's at-most-once; different machines: for an instance that is just starting this is PROVED from the
    disjoint pools, for two suspended instances it is the holder-uniqueness assumption stated in DESIGN 7.)"""
    conds = []
    if 'task' in names and hasattr(names['task'], 't'):
        conds.append(names['task'].t != p['ft'].t)
    if qual == 'Cluster.allocate_task_to_cluster' and frm is not None and frm >= 0 and 'machine' in names:
        conds.append(names['machine'].t != p['fm'].t)
    return z3.And(conds) if conds else None


REG.carried.append(Carried('C01-a-suspended-allocation-keeps-its-task-running-and-its-machine-held', 'Cluster.allocate_task_to_cluster',
                           {'ft': 'Task', 'fm': 'Machine', 'fingest': 'bool'}, _holds_machine, _other_instance, props=['C01', 'C02', 'C04']))


# ---- the task table (C04 'one row per executed task', C11: a pure function of the current state) -------------------------------
DF_COLS = z3.Function('df_cols', I, I)


def _ftd_inv(c):
    n = c.n
    vis = c.x['visited']
    td = n['task_data']
    ids = n.heap('Task', 'id')
    return [('one-column-per-visited-task', td.nk == vis.n),
            ('columns-are-the-ids-of-the-visited-tasks', Q([('t', I)], lambda t: z3.Implies(z3.Select(vis.cnt, t) > 0, z3.Select(td.keys, z3.Select(ids, t))))),
            ('every-column-is-the-id-of-a-visited-task', Q([('k', I)], lambda k: z3.Implies(z3.Select(td.keys, k), z3.Exists(
                [z3.Int('uw')], z3.And(z3.Select(vis.cnt, z3.Int('uw')) > 0, z3.Select(ids, z3.Int('uw')) == k)))))]


def _ftd_req(c):
    k = CV(c.o.self)
    ids = c.o.heap('Task', 'id')
    return [('assume:task-ids-are-unique', Q([('t', I), ('u', I)], lambda t, u: z3.Implies(
        z3.And(k.fin.has(t), k.fin.has(u), t != u), z3.Select(ids, t) != z3.Select(ids, u))))]


REG.contract('Cluster.finished_task_time_data', requires=_ftd_req,
             ensures=lambda c: [('C04-one-column-per-task-in-the-finished-map', DF_COLS(c.result.t) == CV(c.o.self).fin.nk)],
             result='dframe', props=['C04', 'C11'],
             note="C11: the table is a pure function of the cluster state (empty frame: nothing may be cached on the cluster)")
REG.loop('Cluster.finished_task_time_data', 0, inv=_ftd_inv, modifies_locals=['task'], modifies=['task_data'], props=['C04', 'C11'])


def _fin_tasks_ens(c):
    k = CV(c.o.self)
    return [('keys-of-the-finished-map-each-once', Q([('t', I)], lambda t: c.result.count(t) == z3.If(k.fin.has(t), 1, 0))),
            ('as-many-as-keys', c.result.n == k.fin.nk)]


REG.contract('Cluster.finished_tasks', fix={'c': 'default'}, ensures=_fin_tasks_ens, result='list:Task', props=['C03'])
