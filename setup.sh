#!/bin/sh
# offline setup: nothing is fetched or compiled; only verify the tool chain is present
set -e
cd "$(dirname "$0")"
python3-vt -c "import z3; print('z3', z3.get_version_string())"
/venv/bin/python -c "import simpy, pandas, networkx; print('venv ok')"
mkdir -p evidence replays
