"""pyvc interpreter: expressions and statements of the subset (DESIGN.md 4.3, 5)."""
import ast
import z3
from .core import *  # noqa
from .state import *  # noqa
from .engine import EngineBase

ERASABLE_RECEIVERS = {'LOGGER', 'logger', 'logging', 'pbar'}
ERASABLE_FUNCS = {'print'}
PURE_FUNCS = {'len', 'str', 'int', 'format', 'repr'}


class EnvV:
    """the simpy Environment"""
    def clone(self, memo):
        return self

    def __repr__(self):
        return '<env>'


ENV = EnvV()


def effect_free(expr):
    for n in ast.walk(expr):
        if isinstance(n, ast.Call):
            f = n.func
            if isinstance(f, ast.Name) and f.id in PURE_FUNCS:
                continue
            if isinstance(f, ast.Attribute) and f.attr in ('format', 'strftime', 'value'):
                continue
            return False
        if isinstance(n, (ast.Yield, ast.Await, ast.NamedExpr)):
            return False
    return True


class Interp(EngineBase):
    # ================================================================ expressions
    def ev(self, e):
        m = getattr(self, 'ev_' + type(e).__name__, None)
        if m is None:
            raise OutOfSubset(f"expression {type(e).__name__} at line {getattr(e, 'lineno', '?')}")
        return m(e)

    def ev_Constant(self, e):
        return e.value

    def ev_Name(self, e):
        n = e.id
        st = self.st
        if n in st.locals:
            return st.locals[n]
        if n in self.src.consts:
            return self.src.consts[n]
        if n in self.src.classes:
            return ClassV(n)
        if n in ('True', 'False', 'None'):
            return {'True': True, 'False': False, 'None': None}[n]
        if n in ('len', 'int', 'max', 'min', 'round', 'sum', 'list', 'set', 'dict', 'sorted', 'enumerate', 'range',
                 'isinstance', 'str', 'print', 'bool', 'abs', 'float', 'tuple', 'tqdm', 'default_rng', 'super'):
            return Opaque('builtin:' + n)
        if n in ('RuntimeError', 'ValueError', 'KeyError', 'IndexError', 'OSError', 'TypeError', 'Exception',
                 'AttributeError', 'ZeroDivisionError'):
            return Opaque('exc:' + n)
        if n in ('copy', 'time', 'nx', 'pd', 'logging', 'LOGGER', 'logger', 'json', 'math', 'np', 'os', 'datetime'):
            return Opaque('module:' + n)
        raise OutOfSubset(f"unbound name {n} at line {e.lineno}")

    def ev_JoinedStr(self, e):
        acc = None
        for v in e.values:
            if isinstance(v, ast.Constant):
                part = v.value
            else:
                part = self.str_of(self.ev(v.value))
            acc = part if acc is None else self.concat(acc, part)
        return acc if acc is not None else ''

    def str_of(self, v):
        if isinstance(v, str):
            return v
        if isinstance(v, (int, float)) and not isinstance(v, bool):
            return str(v)
        if isinstance(v, Sym):
            if v.kind == 'str':
                return v
            if v.kind == 'num':
                return Sym('str', z3.Function('str_of_num', R, I)(to_real(v.t)))
            return Sym('str', z3.Function('str_of', I, I)(v.t))
        if isinstance(v, EnumConst):
            return f"{v.cls}.{v.member}"
        return Sym('str', z3.Int(fresh_name('str')))

    def concat(self, a, b):
        if isinstance(a, str) and isinstance(b, str):
            return a + b
        return Sym('str', z3.Function('str_concat', I, I, I)(self.as_int_term(a), self.as_int_term(b)))

    def ev_Tuple(self, e):
        return TupleV([self.ev(x) for x in e.elts])

    def ev_List(self, e):
        if not e.elts:
            return empty_list()
        return PyList([self.ev(x) for x in e.elts])

    def ev_Set(self, e):
        s = empty_list(isset=True)
        for x in e.elts:
            self.list_append(s, self.ev(x))
        return s

    def ev_Dict(self, e):
        if not e.keys:
            return self.empty_dict('any')
        items = {}
        for k, v in zip(e.keys, e.values):
            kk = self.ev(k)
            if not isinstance(kk, (str, int)):
                raise OutOfSubset("dict literal with non-constant key")
            items[kk] = self.ev(v)
        return Record(items)

    def count_where(self, l, pred):
        """number of elements x of the multiset l with pred(x) (an uninterpreted count over the reified predicate)"""
        x = z3.Int('cw_x')
        BAGCOUNT = z3.Function('bagcount', IntArr, BoolArr, I)
        body = pred(x)
        # the reified predicate is an array CONSTANT named after the predicate's text and defined by an axiom (a lambda term
        # in the VC makes even the ground queries of the model search come back `unknown`); two counts over the same
        # predicate text share the constant, exactly as two syntactically equal lambdas did
        import hashlib
        arr = z3.Const('cwarr_' + hashlib.sha1(body.sexpr().encode()).hexdigest()[:12], BoolArr)
        self.st.assume(z3.ForAll([x], z3.Select(arr, x) == body))
        cnt = BAGCOUNT(l.cnt, arr)
        self.st.assume(z3.And(cnt >= 0, cnt <= l.n))
        return cnt

    def ev_ListComp(self, e):
        g0 = e.generators[0] if e.generators else None
        if len(e.generators) == 1 and not g0.ifs and isinstance(g0.target, ast.Name) and isinstance(g0.iter, ast.Call) \
                and isinstance(g0.iter.func, ast.Name) and g0.iter.func.id == 'range' and len(g0.iter.args) == 1 \
                and not any(isinstance(n_, ast.Name) and n_.id == g0.target.id for n_ in ast.walk(e.elt)):
            # [E for x in range(N)] with E independent of x: N copies of the value of E
            nterm = self.num(self.ev(g0.iter.args[0]))
            v = self.ev(e.elt)
            t = self.as_int_term(v)
            res = fresh_list('rep', None)
            cnt_n = z3.If(nterm >= 0, z3.ToInt(nterm), 0)
            self.st.assume(res.n == cnt_n)
            self.st.assume(res.cnt == z3.Store(EMPTY_CNT, t, cnt_n))
            self.bag_facts(res)
            return res
        if len(e.generators) == 1 and not g0.ifs and isinstance(g0.target, ast.Name) and isinstance(e.elt, ast.IfExp) \
                and isinstance(e.elt.body, ast.Constant) and isinstance(e.elt.orelse, ast.Constant) \
                and e.elt.body.value == 1 and e.elt.orelse.value == 0:
            # [1 if P(x) else 0 for x in L]  (summed by the caller): an indicator list
            src = self.ev(g0.iter)
            if isinstance(src, ListObj):
                self.bag_facts(src)
                name = g0.target.id
                saved = self.st.locals.get(name, NotImplemented)

                def pred(x):
                    self.st.locals[name] = self.elem_value(src, x)
                    self.guards.append(z3.Select(src.cnt, x) > 0)
                    try:
                        return self.cond(e.elt.test)
                    finally:
                        self.guards.pop()
                        if saved is NotImplemented:
                            self.st.locals.pop(name, None)
                        else:
                            self.st.locals[name] = saved
                self.guards.append(z3.BoolVal(True))
                try:
                    c = self.count_where(src, pred)
                finally:
                    self.guards.pop()
                return ('indicator', c)
        if len(e.generators) == 1 and not e.generators[0].ifs and isinstance(e.elt, ast.Name) \
                and isinstance(e.generators[0].target, ast.Name) and e.elt.id == e.generators[0].target.id:
            src = self.ev(e.generators[0].iter)
            return self.to_list(src, e)
        if len(e.generators) == 1 and not e.generators[0].ifs and isinstance(e.generators[0].target, ast.Name):
            # [f(x) for x in L]: the image multiset of L under f (f must be effect-free: evaluated on a bound variable)
            src = self.ev(e.generators[0].iter)
            if isinstance(src, ListObj):
                self.bag_facts(src)
                name = e.generators[0].target.id
                saved = self.st.locals.get(name, NotImplemented)
                x = z3.Int(fresh_name('mx'))
                self.st.locals[name] = self.elem_value(src, x)
                self.guards.append(z3.Select(src.cnt, x) > 0)
                n_obl = len(self.obligations)
                try:
                    fx = self.as_int_term(self.ev(e.elt))
                finally:
                    self.guards.pop()
                    if saved is NotImplemented:
                        self.st.locals.pop(name, None)
                    else:
                        self.st.locals[name] = saved
                res = fresh_list('image', 'str')
                y = z3.Int(fresh_name('my'))
                self.st.assume(res.n == src.n)
                self.st.assume(z3.ForAll([x], z3.Implies(z3.Select(src.cnt, x) > 0, z3.Select(res.cnt, fx) >= 1)))
                xw = z3.Int(fresh_name('mw'))
                self.st.assume(z3.ForAll([y], z3.Implies(z3.Select(res.cnt, y) > 0, z3.Exists(
                    [xw], z3.And(z3.Select(src.cnt, xw) > 0, y == z3.substitute(fx, (x, xw)))))))
                self.bag_facts(res)
                res.image_of = (src, x, fx)
                return res
        raise OutOfSubset(f"list comprehension at line {e.lineno}")

    def ev_GeneratorExp(self, e):
        # consumed at once by set(...) / list(...) in the subset: same image multiset as the list comprehension
        return self.ev_ListComp(e)

    def ev_DictComp(self, e):
        g = e.generators[0]
        if len(e.generators) != 1 or g.ifs or not isinstance(g.target, ast.Name):
            raise OutOfSubset("dict comprehension form")
        src = self.ev(g.iter)
        if not isinstance(src, ListObj):
            raise OutOfSubset("dict comprehension over non-list")
        x = z3.Int(fresh_name('dc'))
        saved = self.st.locals.get(g.target.id, NotImplemented)
        self.st.locals[g.target.id] = self.elem_value(src, x)
        self.bag_facts(src)
        self.guards.append(z3.Select(src.cnt, x) > 0)
        try:
            k = self.as_int_term(self.ev(e.key))
            v = self.ev(e.value)
            vt = self.as_int_term(v)
        finally:
            self.guards.pop()
        if saved is NotImplemented:
            del self.st.locals[g.target.id]
        else:
            self.st.locals[g.target.id] = saved
        d = self.fresh_dict('dict:any->' + ('ref:' + v.cls if isinstance(v, Sym) and v.kind == 'ref' and v.cls else 'any'), 'dictcomp')
        self.st.assume(z3.ForAll([x], z3.Implies(z3.Select(src.cnt, x) > 0,
                                                 z3.And(z3.Select(d.keys, k), z3.Select(d.vals, k) == vt)),
                                 patterns=[z3.Select(src.cnt, x)]))
        return d

    def to_list(self, src, node):
        if isinstance(src, ListObj):
            self.bag_facts(src)
            c_ = ListObj(src.cnt, src.n, src.elem, False)
            if not src.isset:
                c_._seq = src.seq       # a copy of a list has the same items at the same positions
            c_.hash_ordered = getattr(src, 'hash_ordered', False) or src.isset
            return c_
        if isinstance(src, PyList):
            return PyList(list(src.items))
        if isinstance(src, DictObj):
            # list(d) / list(d.keys()): a list of the keys, each once
            l = fresh_list('keys', getattr(src, 'kcls', None) or 'any')
            x = z3.Int(fresh_name('kx'))
            self.st.assume(z3.ForAll([x], z3.Select(l.cnt, x) == z3.If(z3.Select(src.keys, x), 1, 0)))
            self.st.assume(l.n == src.nk)
            return l
        raise OutOfSubset(f"list() of {type(src).__name__} at line {getattr(node, 'lineno', '?')}")

    def ev_Attribute(self, e):
        base = self.ev(e.value)
        return self.getattr(base, e.attr, e)

    def getattr(self, base, attr, node):
        if isinstance(base, Sym) and base.kind == 'dframe':
            # pandas (ASSUMED, contracts/deps.py): .T swaps rows and columns; other attributes are methods
            DFR, DFC = z3.Function('df_rows', I, I), z3.Function('df_cols', I, I)
            if attr == 'T':
                self.note_assumed('pandas.DataFrame.T')
                f = Sym('dframe', z3.Int(fresh_name('frameT')))
                self.st.assume(z3.And(DFR(f.t) == DFC(base.t), DFC(f.t) == DFR(base.t)))
                return f
            return BoundMethod(base, attr)
        if isinstance(base, ObjV):
            if attr in base.fields:
                return base.fields[attr]
            fi = self.src.find_method(base.cls, attr)
            if fi is not None:
                if fi.is_property:
                    return self.call_function(fi, base, [], {}, node)
                return BoundMethod(base, attr)
            if self.spec.is_abstract(base.cls):
                return BoundMethod(base, attr)
            raise OutOfSubset(f"AttributeError: {base.cls}.{attr} (line {getattr(node, 'lineno', '?')})")
        if isinstance(base, Sym) and base.kind == 'ref' and base.cls:
            ent = self.spec.entities.get(base.cls, {})
            if attr in ent:
                # attribute access on None raises AttributeError
                self.check_or_raise(base.t != 0, 'AttributeError', node, f"None.{attr}")
                return self.heap_read(base, attr)
            fi = self.src.find_method(base.cls, attr)
            if fi is not None or base.cls in self.spec.dep_classes:
                return BoundMethod(base, attr)
            raise OutOfSubset(f"no schema for {base.cls}.{attr}")
        if isinstance(base, Sym) and base.kind == 'any' and attr == 'T':
            # assumed (pandas): transpose swaps rows and columns
            f = Sym('any', z3.Int(fresh_name('transposed')))
            self.st.assume(z3.Function('df_rows', I, I)(f.t) == z3.Function('df_cols', I, I)(base.t))
            self.st.assume(z3.Function('df_cols', I, I)(f.t) == z3.Function('df_rows', I, I)(base.t))
            return f
        if isinstance(base, Sym) and base.kind == 'enum' and attr == 'value':
            return self.enum_value(base)
        if isinstance(base, EnumConst) and attr == 'value':
            return base.value
        if isinstance(base, EnumConst) and attr in ENUMS.enums[base.cls]:
            return EnumConst(base.cls, attr)      # member.OTHER (e.g. self.schedule_status.DELAYED)
        if isinstance(base, Sym) and base.kind == 'enum' and attr in ENUMS.enums.get(base.cls, {}):
            return EnumConst(base.cls, attr)
        if isinstance(base, ClassV):
            if base.name in ENUMS.enums and attr in ENUMS.enums[base.name]:
                return EnumConst(base.name, attr)
            if attr in self.src.classes:
                return ClassV(attr)
            ca = self.spec.class_attrs.get(base.name, {})
            if attr in ca:
                return ca[attr]
            cconst = getattr(self.src, 'class_consts', {}).get(base.name, {})
            if attr in cconst and base.name not in ENUMS.enums:
                return self.ev(cconst[attr])
            return BoundMethod(base, attr)
        if isinstance(base, EnvV):
            if attr == 'now':
                return Sym('num', self.st.now, isint=True)
            return BoundMethod(base, attr)
        if isinstance(base, ProcV) and attr == 'triggered':
            return Sym('bool', base.triggered)
        if isinstance(base, Opaque) and base.what.startswith('path'):
            return Opaque('path')
        if isinstance(base, Opaque) and base.what.startswith('module:') and attr in ('algorithms', 'readwrite'):
            return Opaque(base.what + '.' + attr)
        if isinstance(base, (ListObj, DictObj, Record, PyList, Opaque, TupleV)):
            return BoundMethod(base, attr)
        if isinstance(base, str):
            return BoundMethod(base, attr)
        if isinstance(base, Sym):
            return BoundMethod(base, attr)
        if base is None:
            self.check_or_raise(False, 'AttributeError', node, f"None.{attr}")
            raise PathEnd('attribute of None')
        raise OutOfSubset(f"attribute {attr} of {base!r} at line {getattr(node, 'lineno', '?')}")

    def enum_value(self, s):
        members = ENUMS.enums[s.cls]
        vals = list(members.items())
        if all(isinstance(v, (int, float)) for _, v in vals):
            t = z3.RealVal(0)
            for m, v in vals:
                t = z3.If(s.t == ENUMS.code(s.cls, m), to_real(v), t)
            return Sym('num', t)
        t = z3.IntVal(0)
        for m, v in vals:
            t = z3.If(s.t == ENUMS.code(s.cls, m), z3.IntVal(STRINGS.intern(str(v))), t)
        return Sym('str', t)

    def ev_Subscript(self, e):
        base = self.ev(e.value)
        if isinstance(e.slice, ast.Slice):
            sl = e.slice
            if isinstance(base, ListObj) and sl.lower is None and sl.step is None and sl.upper is not None:
                return self.list_slice_prefix(base, self.ev(sl.upper))
            raise OutOfSubset(f"slice form at line {e.lineno}")
        idx = self.ev(e.slice)
        return self.getitem(base, idx, e)

    def getitem(self, base, idx, node):
        if isinstance(base, BoundMethod) and isinstance(base.recv, Sym) and base.recv.cls == 'Graph' and base.name in ('nodes', 'pred'):
            # assumed (networkx): g.nodes[x] is x's attribute dict; g.pred[x] maps each predecessor of x to the edge's attribute dict
            g = base.recv.t
            x = self.as_int_term(idx)
            NODE = z3.Function('nx_node', I, I, B)
            EDGE = z3.Function('nx_edge', I, I, I, B)
            self.check_or_raise(NODE(g, x), 'KeyError', node, f"graph.{base.name}[node]")
            if base.name == 'nodes':
                r = Sym('ref', z3.Function('nx_nodeattr', I, I, I)(g, x), 'NodeAttr')
                self.st.assume(r.t > 0)
                return r
            p = z3.Int(fresh_name('nxp'))
            EA = z3.Function('nx_edgeattr', I, I, I, I)
            PK = z3.Function('nx_pred_keys', I, I, BoolArr)
            PV = z3.Function('nx_pred_vals', I, I, IntArr)
            self.st.assume(z3.ForAll([p], z3.And(z3.Select(PK(g, x), p) == EDGE(g, p, x), z3.Select(PV(g, x), p) == EA(g, p, x))))
            d = DictObj(PK(g, x), z3.Function('nx_indeg', I, I, I)(g, x), 'ref', vals=PV(g, x), vcls='EdgeAttr')
            d.frozen = True
            q = z3.Int(fresh_name('eq'))
            self.st.assume(z3.ForAll([q], z3.Implies(EDGE(g, q, x), EA(g, q, x) > 0)))
            self.st.assume(d.nk >= 0)
            return d
        if isinstance(base, Sym) and base.kind == 'ref' and base.cls == 'NpArr':
            LEN, ATF = z3.Function('np_len', I, I), z3.Function('np_at', I, I, R)
            if isinstance(idx, tuple) and idx[0] == 'npmask_gt':
                # assumed (numpy): a[a > x] holds exactly the elements greater than x, in order
                _, arr, x = idx
                fid = z3.Function('np_filter_gt', I, R, I)(arr.t, x)
                i = z3.Int(fresh_name('fi'))
                self.st.assume(z3.And(fid > 0, LEN(fid) >= 0, LEN(fid) <= LEN(arr.t)))
                self.st.assume(z3.ForAll([i], z3.Implies(z3.And(0 <= i, i < LEN(fid)), ATF(fid, i) > x)))
                j = z3.Int(fresh_name('fj'))
                self.st.assume(z3.Implies(z3.ForAll([j], z3.Implies(z3.And(0 <= j, j < LEN(arr.t)), ATF(arr.t, j) <= x)), LEN(fid) == 0))
                return Sym('ref', fid, 'NpArr')
            k = self.num(idx)
            n = z3.ToReal(LEN(base.t))
            self.check_or_raise(z3.And(k >= -n, k < n), 'IndexError', node, 'index out of bounds of a numpy array')
            return Sym('num', ATF(base.t, z3.ToInt(k)))
        if isinstance(base, Record):
            if isinstance(idx, (str, int)) and not isinstance(idx, bool):
                if idx not in base.items:
                    self.check_or_raise(False, 'KeyError', node, f"record[{idx!r}]")
                    raise PathEnd('KeyError')
                return base.items[idx]
            # symbolic key on a record: must equal one of the constant keys
            it = self.as_int_term(idx)
            keys = list(base.items)
            self.check_or_raise(z3.Or([it == self.as_int_term(k) for k in keys]), 'KeyError', node, 'record[symbolic key]')
            for k in keys[:-1]:
                if self.branch(it == self.as_int_term(k)):
                    return base.items[k]
            return base.items[keys[-1]]
        if isinstance(base, DictObj):
            return self.dict_get(base, idx, node)
        if isinstance(base, ListObj):
            if isinstance(idx, int) and idx in (0, -1):
                return self.list_pick(base, node, f"list[{idx}] on empty list", want_last=(idx == -1))
            it = self.num(idx)
            self.bag_facts(base)
            self.check_or_raise(z3.And(it >= -z3.ToReal(base.n), it < z3.ToReal(base.n)), 'IndexError', node, 'list[i]')
            e = self.seq_item(base, it)
            return self.elem_value(base, e)
        if isinstance(base, PyList):
            if isinstance(idx, int):
                if not (-len(base.items) <= idx < len(base.items)):
                    self.check_or_raise(False, 'IndexError', node, 'list[i]')
                    raise PathEnd('IndexError')
                return base.items[idx]
            raise OutOfSubset("symbolic index into a literal list")
        if isinstance(base, TupleV):
            if isinstance(idx, int):
                return base.items[idx]
        if isinstance(base, Opaque):
            return Opaque(f"{base.what}[...]")
        if isinstance(base, Sym) and base.kind == 'str':
            return Sym('str', z3.Int(fresh_name('strpart')))       # a piece of an opaque string (s.split(...)[i], s[i])
        if isinstance(base, Sym) and base.kind == 'ref' and base.cls in self.spec.entities and isinstance(idx, str):
            # JSON object modelled as an entity: obj['key']
            ent = self.spec.entities[base.cls]
            if idx not in ent:
                self.check_or_raise(False, 'KeyError', node, f"{base.cls}[{idx!r}]")
                raise PathEnd('KeyError')
            if ('has:' + idx) in ent:
                self.check_or_raise(self.heap_read(base, 'has:' + idx).t, 'KeyError', node, f"{base.cls}[{idx!r}] optional key")
            return self.heap_read(base, idx)
        if isinstance(base, Sym) and base.kind == 'num':
            # subscripting a number: TypeError in Python
            self.check_or_raise(False, 'TypeError', node, "subscript of a number")
            raise PathEnd('TypeError')
        raise OutOfSubset(f"subscript of {type(base).__name__} at line {getattr(node, 'lineno', '?')}")

    def seq_facts(self, base):
        """theory of sequences (true of every Python list): items at valid positions are members; a list without
        duplicates has pairwise distinct items"""
        AT = z3.Function('at', I, I, I)
        NODUP = z3.Function('nodup', IntArr, B)
        key = ('atfacts', base.seq.get_id())
        seen = self.st.ghost.setdefault('_atfacts', set())
        if key in seen:
            return
        seen.add(key)
        x, a, b = z3.Int(fresh_name('ndx')), z3.Int(fresh_name('ai')), z3.Int(fresh_name('aj'))
        self.st.assume(z3.Implies(z3.ForAll([x], z3.Select(base.cnt, x) <= 1), NODUP(base.cnt)))
        self.st.assume(z3.Implies(NODUP(base.cnt), z3.ForAll([a, b], z3.Implies(
            z3.And(0 <= a, a < b, b < base.n), AT(base.seq, a) != AT(base.seq, b)),
            patterns=[z3.MultiPattern(AT(base.seq, a), AT(base.seq, b))])))
        self.st.assume(z3.ForAll([a], z3.Implies(z3.And(0 <= a, a < base.n), z3.Select(base.cnt, AT(base.seq, a)) > 0),
                                 patterns=[AT(base.seq, a)]))

    def seq_item(self, base, it):
        AT = z3.Function('at', I, I, I)
        self.seq_facts(base)
        return AT(base.seq, z3.ToInt(it))

    def ev_UnaryOp(self, e):
        if isinstance(e.op, ast.Not):
            return Sym('bool', z3.Not(self.cond(e.operand)))
        v = self.ev(e.operand)
        if isinstance(e.op, ast.USub):
            if isinstance(v, (int, float)):
                return -v
            return Sym('num', -self.num(v), isint=getattr(v, 'isint', False))
        raise OutOfSubset("unary op")

    def ev_BinOp(self, e):
        a = self.ev(e.left)
        b = self.ev(e.right)
        return self.binop(e.op, a, b, e)

    def binop(self, op, a, b, node):
        conc = (int, float)
        if isinstance(a, conc) and isinstance(b, conc) and not isinstance(a, bool) and not isinstance(b, bool):
            try:
                if isinstance(op, ast.Add):
                    return a + b
                if isinstance(op, ast.Sub):
                    return a - b
                if isinstance(op, ast.Mult):
                    return a * b
                if isinstance(op, ast.Div):
                    return a / b
                if isinstance(op, ast.FloorDiv):
                    return a // b
                if isinstance(op, ast.Mod):
                    return a % b
            except ZeroDivisionError:
                self.check_or_raise(False, 'ZeroDivisionError', node, 'division by zero')
                raise PathEnd('ZeroDivisionError')
        if isinstance(op, ast.Add) and (isinstance(a, str) or isinstance(b, str) or
                                        (isinstance(a, Sym) and a.kind == 'str') or (isinstance(b, Sym) and b.kind == 'str')):
            return self.concat(a, b)
        if isinstance(op, ast.Div) and isinstance(a, Opaque) and a.what == 'path':
            o = Opaque('path')
            o.arg = self.as_int_term(b)
            return o
        if isinstance(op, ast.Add) and isinstance(a, ListObj) and isinstance(b, ListObj):
            # list concatenation: multiplicities add up
            self.bag_facts(a)
            self.bag_facts(b)
            x = z3.Int(fresh_name('cc_x'))
            r = fresh_list('concat', a.elem or b.elem)
            # (an axiom instead of a lambda term: lambdas make the ground queries of the model search `unknown`)
            self.st.assume(z3.ForAll([x], z3.Select(r.cnt, x) == z3.Select(a.cnt, x) + z3.Select(b.cnt, x)))
            self.st.assume(r.n == a.n + b.n)
            self.bag_facts(r)
            return r
        # a union-typed entity field (Task.io: a dict of transfer volumes for workflow tasks, the number 0 for ingest tasks):
        # arithmetic needs the number; on the dict / None reading Python raises TypeError
        if isinstance(a, DictObj) and getattr(a, 'isnum', None) is not None:
            self.check_or_raise(a.isnum, 'TypeError', node, 'arithmetic on a dict or None')
            a = Sym('num', a.numval)
        if isinstance(b, DictObj) and getattr(b, 'isnum', None) is not None:
            self.check_or_raise(b.isnum, 'TypeError', node, 'arithmetic on a dict or None')
            b = Sym('num', b.numval)
        for v in (a, b):
            if isinstance(v, (ListObj, PyList, TupleV, str)) or (isinstance(v, Sym) and v.kind == 'str'):
                raise OutOfSubset(f"sequence arithmetic at line {getattr(node, 'lineno', '?')}")
            if (isinstance(v, EnumConst) and not any(bb in ('int', 'str') for bb in self.src.bases.get(v.cls, []))) \
                    or (isinstance(v, Sym) and v.kind == 'enum' and not any(bb in ('int', 'str') for bb in self.src.bases.get(v.cls, []))) \
                    or v is None or isinstance(v, (DictObj, Record, ObjV)):
                # arithmetic between a number and None / a plain Enum member / a dict / an object: Python raises TypeError
                self.check_or_raise(False, 'TypeError', node, f"arithmetic on {self.kind_name(v)}")
                raise PathEnd('TypeError')
            if isinstance(v, Sym) and v.kind in ('enum', 'ref'):
                raise OutOfSubset(f"arithmetic on {self.kind_name(v)} at line {getattr(node, 'lineno', '?')}")
        x, y = self.num(a), self.num(b)
        ai = (isinstance(a, int) or getattr(a, 'isint', False)) and (isinstance(b, int) or getattr(b, 'isint', False))
        if isinstance(op, ast.Add):
            return Sym('num', x + y, isint=ai)
        if isinstance(op, ast.Sub):
            return Sym('num', x - y, isint=ai)
        if isinstance(op, ast.Mult):
            return Sym('num', x * y, isint=ai)
        if isinstance(op, ast.Div):
            self.check_or_raise(y != 0, 'ZeroDivisionError', node, 'division by zero')
            return Sym('num', x / y)
        if isinstance(op, ast.FloorDiv):
            self.check_or_raise(y != 0, 'ZeroDivisionError', node, 'division by zero')
            return Sym('num', zfloor(x / y), isint=ai)
        if isinstance(op, ast.Mod):
            self.check_or_raise(y != 0, 'ZeroDivisionError', node, 'modulo by zero')
            return Sym('num', x - y * zfloor(x / y), isint=ai)
        raise OutOfSubset(f"binary operator {type(op).__name__}")

    def kind_name(self, v):
        if isinstance(v, Sym):
            return v.kind + (':' + v.cls if v.cls else '')
        return type(v).__name__

    def ev_BoolOp(self, e):
        return Sym('bool', self.cond(e))

    def ev_Compare(self, e):
        if len(e.ops) == 1 and isinstance(e.ops[0], ast.Gt):
            a = self.ev(e.left)
            if isinstance(a, Sym) and a.kind == 'ref' and a.cls == 'NpArr':
                return self.compare(e.ops[0], a, self.ev(e.comparators[0]), e)
            b = self.ev(e.comparators[0])
            return Sym('bool', self.compare(e.ops[0], a, b, e))
        return Sym('bool', self.cond(e))

    def ev_IfExp(self, e):
        c = self.cond(e.test)
        if self.branch(c):
            return self.ev(e.body)
        return self.ev(e.orelse)

    def ev_Lambda(self, e):
        return Opaque('lambda')

    def ev_Call(self, e):
        return self.call(e)

    # ---------------------------------------------------------------- conditions
    def cond(self, e):
        """z3 Bool (python truthiness) of an expression, with short-circuit guards"""
        if isinstance(e, ast.BoolOp):
            terms = []
            n_guards = 0
            for sub in e.values:
                has_call = any(isinstance(n, ast.Call) for n in ast.walk(sub))
                c = self.cond(sub)
                terms.append(c)
                # later operands are evaluated only if this one was truthy (and) / falsy (or)
                g = c if isinstance(e.op, ast.And) else z3.Not(c)
                self.guards.append(g)
                n_guards += 1
            for _ in range(n_guards):
                self.guards.pop()
            return z3.And(terms) if isinstance(e.op, ast.And) else z3.Or(terms)
        if isinstance(e, ast.UnaryOp) and isinstance(e.op, ast.Not):
            return z3.Not(self.cond(e.operand))
        if isinstance(e, ast.Compare):
            left = self.ev(e.left)
            terms = []
            for op, rhs in zip(e.ops, e.comparators):
                right = self.ev(rhs)
                terms.append(self.compare(op, left, right, e))
                left = right
            return terms[0] if len(terms) == 1 else z3.And(terms)
        v = self.ev(e)
        return self.truth(v)

    def compare(self, op, a, b, node):
        if isinstance(a, Sym) and a.kind == 'ref' and a.cls == 'NpArr' and isinstance(op, ast.Gt):
            return ('npmask_gt', a, self.num(b))       # elementwise comparison: a boolean mask
        if isinstance(op, (ast.In, ast.NotIn)):
            r = self.contains(b, a, node)
            return z3.Not(r) if isinstance(op, ast.NotIn) else r
        if isinstance(op, (ast.Eq, ast.Is, ast.NotEq, ast.IsNot)):
            r = self.equal(a, b, node)
            return z3.Not(r) if isinstance(op, (ast.NotEq, ast.IsNot)) else r
        conc = (int, float)
        if isinstance(a, conc) and isinstance(b, conc):
            return z3.BoolVal({ast.Lt: a < b, ast.LtE: a <= b, ast.Gt: a > b, ast.GtE: a >= b}[type(op)])
        for v in (a, b):
            if v is None or isinstance(v, EnumConst) or (isinstance(v, Sym) and v.kind in ('enum',)):
                self.check_or_raise(False, 'TypeError', node, 'ordering comparison on non-number')
                raise PathEnd('TypeError')
        x, y = self.num(a), self.num(b)
        if isinstance(op, ast.Lt):
            return x < y
        if isinstance(op, ast.LtE):
            return x <= y
        if isinstance(op, ast.Gt):
            return x > y
        if isinstance(op, ast.GtE):
            return x >= y
        raise OutOfSubset("comparison operator")

    def is_numlike(self, v):
        return (isinstance(v, (int, float)) and not isinstance(v, bool)) or (isinstance(v, Sym) and v.kind == 'num')

    def equal(self, a, b, node):
        if a is None and b is None:
            return z3.BoolVal(True)
        if isinstance(a, OptNum) and b is None:
            return a.none
        if isinstance(b, OptNum) and a is None:
            return b.none
        if isinstance(a, (ObjV, ListObj, DictObj, Record)) or isinstance(b, (ObjV, ListObj, DictObj, Record)):
            if a is None or b is None:
                return z3.BoolVal(False)
            return z3.BoolVal(a is b)
        if isinstance(a, (str, EnumConst)) and isinstance(b, (str, EnumConst)):
            if isinstance(a, EnumConst) and isinstance(b, EnumConst):
                return z3.BoolVal(a == b)
            if isinstance(a, str) and isinstance(b, str):
                return z3.BoolVal(a == b)
            # str-enum member vs plain string
            ec, s = (a, b) if isinstance(a, EnumConst) else (b, a)
            return z3.BoolVal('str' in self.src.bases.get(ec.cls, []) and ec.value == s)
        if self.is_numlike(a) and self.is_numlike(b):
            if not isinstance(a, Sym) and not isinstance(b, Sym):
                return z3.BoolVal(a == b)
            return self.num(a) == self.num(b)
        if isinstance(a, bool) and isinstance(b, bool):
            return z3.BoolVal(a == b)
        if (isinstance(a, Sym) and a.kind == 'bool') or (isinstance(b, Sym) and b.kind == 'bool'):
            return self.truth(a) == self.truth(b)
        if self.is_numlike(a) or self.is_numlike(b):
            # number vs None / ref / str: never equal (None) -- for optnum fields handled by caller
            other = b if self.is_numlike(a) else a
            if other is None:
                return z3.BoolVal(False)
            if isinstance(other, Sym) and other.kind == 'any':
                return z3.Function('num_of', I, R)(other.t) == self.num(a if self.is_numlike(a) else b)
            return z3.BoolVal(False)
        if isinstance(a, TupleV) or isinstance(b, TupleV):
            if isinstance(a, TupleV) and isinstance(b, TupleV) and len(a.items) == len(b.items):
                return z3.And([self.equal(x, y, node) for x, y in zip(a.items, b.items)])
            return z3.BoolVal(False)
        if isinstance(a, Opaque) or isinstance(b, Opaque):
            raise OutOfSubset(f"comparison with opaque value at line {getattr(node, 'lineno', '?')}")
        return self.as_int_term(a) == self.as_int_term(b)

    def contains(self, coll, x, node):
        if isinstance(coll, Sym) and coll.kind == 'ref' and coll.cls in self.spec.entities and isinstance(x, str):
            ent = self.spec.entities[coll.cls]
            if ('has:' + x) in ent:
                return self.heap_read(coll, 'has:' + x).t
            return z3.BoolVal(x in ent)
        if isinstance(coll, ListObj):
            return self.list_contains(coll, x)
        if isinstance(coll, DictObj):
            return self.dict_has(coll, x)
        if isinstance(coll, Record):
            if isinstance(x, (str, int)):
                return z3.BoolVal(x in coll.items)
            it = self.as_int_term(x)
            return z3.Or([it == self.as_int_term(k) for k in coll.items]) if coll.items else z3.BoolVal(False)
        if isinstance(coll, PyList):
            if not coll.items:
                return z3.BoolVal(False)
            return z3.Or([self.equal(x, y, node) for y in coll.items])
        if isinstance(coll, Opaque):
            raise OutOfSubset(f"'in' on opaque value at line {getattr(node, 'lineno', '?')}")
        raise OutOfSubset(f"'in' on {type(coll).__name__}")

    # ================================================================ statements
    def exec_block(self, stmts):
        for s in stmts:
            self.exec_stmt(s)

    def exec_stmt(self, s):
        if self.seek is not None:
            if not self.contains_node(s, self.seek):
                return
            return self.seek_into(s)
        m = getattr(self, 'st_' + type(s).__name__, None)
        if m is None:
            raise OutOfSubset(f"statement {type(s).__name__} at line {s.lineno}")
        return m(s)

    def contains_node(self, s, target):
        return any(n is target for n in ast.walk(s))

    def seek_into(self, s):
        """descend toward the yield at which this segment resumes, without executing anything"""
        if isinstance(s, ast.Expr) and s.value is self.seek:
            self.seek = None
            return
        if isinstance(s, ast.If):
            if any(self.contains_node(x, self.seek) for x in s.body):
                self.exec_block(s.body)
            else:
                self.exec_block(s.orelse)
            return
        if isinstance(s, ast.While):
            try:
                self.exec_block(s.body)
            except ContinueSig:
                pass
            except BreakSig:
                return
            return self.st_While(s)
        raise OutOfSubset(f"yield nested in {type(s).__name__} at line {s.lineno}")

    def st_Pass(self, s):
        pass

    def st_Import(self, s):
        pass

    st_ImportFrom = st_Import

    def is_erasable_call(self, call):
        f = call.func
        if isinstance(f, ast.Name) and f.id in ERASABLE_FUNCS:
            return True
        if isinstance(f, ast.Attribute):
            b = f.value
            if isinstance(b, ast.Name) and b.id in ERASABLE_RECEIVERS:
                return True
        return False

    def st_Expr(self, s):
        v = s.value
        if isinstance(v, ast.Constant):
            return
        if isinstance(v, ast.Yield):
            val = self.ev(v.value) if v.value is not None else None
            k = self.yield_ordinal(v)
            raise YieldSig(k, val)
        if isinstance(v, ast.Call) and self.is_erasable_call(v):
            if all(effect_free(a) for a in list(v.args) + [k.value for k in v.keywords]):
                self.note_erased(s, 'log/print/progress call')
                return
            raise OutOfSubset(f"logging call with effectful argument at line {s.lineno}")
        self.ev(v)

    def note_erased(self, s, form):
        fi = self.fn_stack[-1]
        item = (fi.file, s.lineno, form)
        if item not in self.erased:
            self.erased.append(item)

    def yield_ordinal(self, node):
        ys = self.fn_stack[-1].yields()
        for i, y in enumerate(ys):
            if y is node:
                return i
        raise OutOfSubset("yield not found")

    def st_Assign(self, s):
        val = self.ev(s.value)
        for t in s.targets:
            self.assign(t, val)

    def st_AnnAssign(self, s):
        if s.value is not None:
            self.assign(s.target, self.ev(s.value))

    def assign(self, t, val):
        if isinstance(t, ast.Name):
            self.st.locals[t.id] = val
            return
        if isinstance(t, (ast.Tuple, ast.List)):
            items = self.unpack(val, len(t.elts), t)
            for sub, v in zip(t.elts, items):
                self.assign(sub, v)
            return
        if isinstance(t, ast.Attribute):
            base = self.ev(t.value)
            return self.setattr(base, t.attr, val, t)
        if isinstance(t, ast.Subscript):
            base = self.ev(t.value)
            idx = self.ev(t.slice)
            return self.setitem(base, idx, val, t)
        raise OutOfSubset(f"assignment target {type(t).__name__}")

    def unpack(self, val, n, node):
        if isinstance(val, TupleV):
            if len(val.items) != n:
                raise OutOfSubset("tuple arity")
            return val.items
        if isinstance(val, PyList) and len(val.items) == n:
            return val.items
        if isinstance(val, Opaque):
            return [Opaque(val.what + f'[{i}]') for i in range(n)]
        raise OutOfSubset(f"cannot unpack {type(val).__name__} at line {getattr(node, 'lineno', '?')}")

    def setattr(self, base, attr, val, node):
        if isinstance(base, ObjV):
            self.frame_note(('obj', base.label, attr))
            base.fields[attr] = val
            return
        if isinstance(base, Sym) and base.kind == 'ref' and base.cls:
            self.check_or_raise(base.t != 0, 'AttributeError', node, f"None.{attr} = ...")
            self.heap_write(base, attr, val)
            return
        if isinstance(base, Opaque):
            return
        raise OutOfSubset(f"attribute store on {base!r} at line {getattr(node, 'lineno', '?')}")

    def setitem(self, base, idx, val, node):
        if isinstance(base, Record):
            if isinstance(idx, (str, int)):
                if isinstance(val, PyList) and base.label == 'DataFrame':
                    val = val.items[0] if len(val.items) == 1 else val
                base.items[idx] = val
                return
            if base.label == 'DataFrame':
                base.items[('sym', str(idx))] = val
                return
            raise OutOfSubset("symbolic key store into a record")
        if isinstance(base, DictObj):
            return self.dict_set(base, idx, val)
        if isinstance(base, Opaque):
            return
        if isinstance(base, Sym) and base.kind == 'dframe':
            # df[col] = list: pandas (ASSUMED) requires one value per row (ValueError otherwise) and keeps the row count
            self.note_assumed('pandas.DataFrame.__setitem__')
            DFR = z3.Function('df_rows', I, I)
            if isinstance(val, ListObj):
                self.check_or_raise(val.n == DFR(base.t), 'ValueError', node, 'length of values does not match length of index')
            elif isinstance(val, PyList):
                self.check_or_raise(DFR(base.t) == len(val.items), 'ValueError', node, 'length of values does not match length of index')
            return
        if isinstance(base, Sym) and base.kind == 'ref' and base.cls in self.spec.entities and isinstance(idx, str) \
                and idx in self.spec.entities[base.cls]:
            self.heap_write(base, idx, val)
            if ('has:' + idx) in self.spec.entities[base.cls]:
                self.heap_write(base, 'has:' + idx, True)
            return
        raise OutOfSubset(f"subscript store on {type(base).__name__} at line {getattr(node, 'lineno', '?')}")

    def frame_note(self, loc):
        pass

    def st_AugAssign(self, s):
        t = s.target
        if isinstance(t, ast.Name):
            cur = self.ev(t)
            if isinstance(cur, ListObj) and cur.isset and isinstance(s.op, ast.Sub):
                return self.set_minus(cur, self.ev(s.value))
            self.st.locals[t.id] = self.binop(s.op, cur, self.ev(s.value), s)
            return
        if isinstance(t, ast.Attribute):
            base = self.ev(t.value)
            cur = self.getattr(base, t.attr, t)
            self.setattr(base, t.attr, self.binop(s.op, cur, self.ev(s.value), s), t)
            return
        if isinstance(t, ast.Subscript):
            base = self.ev(t.value)
            idx = self.ev(t.slice)
            cur = self.getitem(base, idx, t)
            self.setitem(base, idx, self.binop(s.op, cur, self.ev(s.value), s), t)
            return
        raise OutOfSubset("augmented assignment target")

    def set_minus(self, a, b):
        if not isinstance(b, ListObj):
            raise OutOfSubset("set -= non-set")
        self.bag_facts(a)
        self.bag_facts(b)
        new = fresh_list('setminus', a.elem, isset=True)
        x = z3.Int(fresh_name('sm'))
        self.st.assume(z3.ForAll([x], z3.Select(new.cnt, x) == z3.If(z3.And(z3.Select(a.cnt, x) > 0, z3.Select(b.cnt, x) == 0), 1, 0)))
        self.st.assume(new.n <= a.n)
        self.st.assume(z3.Implies(b.n == 0, new.n == a.n))
        a.cnt, a.n = new.cnt, new.n
        self.bag_facts(a)

    def st_If(self, s):
        # an `if` whose body holds only erasable statements and whose test is effect-free is erased
        if not s.orelse and effect_free(s.test) and all(self.stmt_erasable(b) for b in s.body):
            self.note_erased(s, 'if with only log/progress statements')
            return
        c = self.cond(s.test)
        if self.branch(c):
            self.exec_block(s.body)
        else:
            self.exec_block(s.orelse)

    def stmt_erasable(self, b):
        if isinstance(b, ast.Expr) and isinstance(b.value, ast.Call) and self.is_erasable_call(b.value):
            return all(effect_free(a) for a in list(b.value.args) + [k.value for k in b.value.keywords])
        if isinstance(b, ast.Pass):
            return True
        return False

    def st_Return(self, s):
        raise ReturnSig(self.ev(s.value) if s.value is not None else None)

    def st_Raise(self, s):
        if s.exc is None:
            raise RaiseSig(self.handling[-1] if self.handling else 'Exception', node=s)
        e = s.exc
        name = None
        if isinstance(e, ast.Call) and isinstance(e.func, ast.Name):
            name = e.func.id
        elif isinstance(e, ast.Name):
            name = e.id
        if name is None:
            raise OutOfSubset("raise form")
        raise RaiseSig(name, node=s)

    def st_Break(self, s):
        raise BreakSig()

    def st_Continue(self, s):
        raise ContinueSig()

    def st_Try(self, s):
        try:
            self.exec_block(s.body)
        except RaiseSig as r:
            for h in s.handlers:
                names = []
                if h.type is None:
                    names = None
                elif isinstance(h.type, ast.Name):
                    names = [h.type.id]
                elif isinstance(h.type, ast.Tuple):
                    names = [x.id for x in h.type.elts if isinstance(x, ast.Name)]
                elif isinstance(h.type, ast.Attribute):
                    names = [h.type.attr]
                if names is None or r.exc in names or 'Exception' in names:
                    self.handling.append(r.exc)
                    try:
                        self.exec_block(h.body)
                    finally:
                        self.handling.pop()
                    break
            else:
                raise
        else:
            self.exec_block(s.orelse)
        self.exec_block(s.finalbody)

    def st_While(self, s):
        spec = self.loop_spec(s)
        if spec is not None:
            return self.cut_loop(s, spec)
        count = 0
        while True:
            count += 1
            if count > 4:
                raise OutOfSubset(f"while loop at line {s.lineno} needs an invariant (no yield on a cycle)")
            c = self.cond(s.test)
            if not self.branch(c):
                self.exec_block(s.orelse)
                return
            try:
                self.exec_block(s.body)
            except BreakSig:
                return
            except ContinueSig:
                continue

    def st_For(self, s):
        spec = self.loop_spec(s)
        it = self.ev(s.iter)
        if isinstance(it, (PyList, Record, TupleV)) and spec is None:
            items = list(it.items) if not isinstance(it, Record) else list(it.items.keys())
            broke = False
            for v in items:
                self.assign(s.target, v)
                try:
                    self.exec_block(s.body)
                except BreakSig:
                    broke = True
                    break
                except ContinueSig:
                    continue
            if not broke:
                self.exec_block(s.orelse)
            return
        if spec is None:
            raise OutOfSubset(f"for loop at line {s.lineno} over {type(it).__name__} needs an invariant")
        return self.cut_for(s, it, spec)
