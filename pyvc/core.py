"""pyvc core: path oracle, obligations, helpers shared by the evaluator mixins."""
import z3
from .state import *  # noqa


class OutOfSubset(Exception):
    pass


class PathEnd(Exception):
    """the current path ended (outcome recorded)"""


class ReturnSig(Exception):
    def __init__(self, value):
        self.value = value


class RaiseSig(Exception):
    def __init__(self, exc, implicit=False, node=None):
        self.exc = exc
        self.implicit = implicit
        self.node = node


class BreakSig(Exception):
    pass


class ContinueSig(Exception):
    pass


class YieldSig(Exception):
    def __init__(self, k, value):
        self.k = k
        self.value = value


class Obligation:
    def __init__(self, name, kind, hyps, goal, where=None, path=None, info=None):
        self.name = name
        self.kind = kind
        self.hyps = list(hyps)
        self.goal = goal
        self.where = where
        self.path = path
        self.info = info or {}
        self.result = None      # filled by the solver stage


class Q:
    """universally quantified clause: vars = [(name, sort)], body = lambda *consts -> z3 Bool"""
    def __init__(self, vars, body, pats=None):
        self.vars = vars
        self.body = body
        self.pats = pats

    def as_hyp(self):
        cs = [z3.Const(fresh_name('q_' + n), s) for n, s in self.vars]
        b = self.body(*cs)
        if self.pats:
            return z3.ForAll(cs, b, patterns=[p(*cs) for p in self.pats])
        return z3.ForAll(cs, b)

    def as_goal(self):
        cs = [z3.Const(fresh_name('sk_' + n), s) for n, s in self.vars]
        return self.body(*cs), cs


def hyp_of(clause):
    return clause.as_hyp() if isinstance(clause, Q) else clause


def goal_of(clause):
    if isinstance(clause, Q):
        return clause.as_goal()[0]
    return clause


def to_real(t):
    if isinstance(t, bool):
        return z3.RealVal(1 if t else 0)
    if isinstance(t, (int, float)):
        return z3.RealVal(repr(t) if isinstance(t, float) else t)
    if z3.is_int(t):
        return z3.ToReal(t)
    return t


def zfloor(x):
    """floor of a real term, as a real"""
    return z3.ToReal(z3.ToInt(x))


def ztrunc(x):
    """Python int(x) for real x: truncation toward zero, as a real term"""
    return z3.If(x >= 0, zfloor(x), -zfloor(-x))


def zmax(a, b):
    return z3.If(a >= b, a, b)


def zmin(a, b):
    return z3.If(a <= b, a, b)


def zround(x):
    """Python round(x): half to even"""
    f = z3.ToInt(x)
    d = x - z3.ToReal(f)
    even = (f % 2 == 0)
    return z3.ToReal(z3.If(d < z3.RealVal('1/2'), f, z3.If(d > z3.RealVal('1/2'), f + 1, z3.If(even, f, f + 1))))


class Oracle:
    """Decision oracle for path enumeration by re-execution (DFS over branch decisions)."""
    def __init__(self):
        self.prefix = []
        self.pos = 0
        self.pending = []       # list of decision prefixes still to explore

    def start(self, prefix):
        self.prefix = list(prefix)
        self.pos = 0

    def decide(self, feasible_true, feasible_false):
        """returns the decision at this branch point; registers the alternative if new"""
        if self.pos < len(self.prefix):
            d = self.prefix[self.pos]
            self.pos += 1
            return d
        # new branch point
        ft, ff = feasible_true(), feasible_false()
        if ft and ff:
            self.pending.append(self.prefix[:self.pos] + [False])
            d = True
        elif ft:
            d = True
        elif ff:
            d = False
        else:
            raise PathEnd('infeasible')
        self.prefix.append(d)
        self.pos += 1
        return d


_HQ = {}


def has_quant(t):
    k = t.get_id()
    if k in _HQ:
        return _HQ[k][1]
    r = False
    todo = [t]
    seen = set()
    while todo:
        x = todo.pop()
        i = x.get_id()
        if i in seen:
            continue
        seen.add(i)
        if z3.is_quantifier(x):
            if x.is_lambda():
                todo.append(x.body())       # a lambda is a term, not a quantified formula
                continue
            r = True
            break
        todo.extend(x.children())
    _HQ[k] = (t, r)      # the term is kept alive: z3 recycles the ids of collected ASTs
    return r
