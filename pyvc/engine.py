"""pyvc engine: symbolic executor for the Python subset of DESIGN.md 4.3 (base part: state access, lists, dicts)."""
import ast
import z3
from .core import *  # noqa
from .state import *  # noqa


FEAS_TIMEOUT_MS = 1500


class EngineBase:
    def __init__(self, source, spec):
        self.src = source
        self.spec = spec                # the contract registry (contracts/lib.py Registry)
        self.oracle = Oracle()
        self.obligations = []
        self.erased = []
        self.assumed_calls = []         # dependency contracts used
        self.used_contracts = []        # contracts of in-tree callees / spawned generators this verification relies on
        self.vacuous = []               # paths whose hypotheses became contradictory
        self.st = None
        self.fn_stack = []
        self.guards = []                # extra hypotheses while evaluating guarded sub-expressions
        self.path_id = 0
        self.feas_cache = {}
        self.stats = {'feas_checks': 0, 'paths': 0}
        self.cur_contract = None
        self.theory = []                # theory facts (bag axioms) emitted on this path

    # ---------------------------------------------------------------- solver helpers
    def hyps(self):
        return list(self.st.pc) + list(self.guards)

    def has_quant(self, t):
        cache = self.__dict__.setdefault('_hq', {})
        k = t.get_id()
        if k in cache:
            return cache[k][1]
        r = False
        todo = [t]
        seen = set()
        while todo:
            x = todo.pop()
            if x.get_id() in seen:
                continue
            seen.add(x.get_id())
            if z3.is_quantifier(x):
                r = True
                break
            todo.extend(x.children())
        cache[k] = (t, r)
        return r

    def feasible(self, cond):
        """path pruning: only quantifier-free hypotheses are used (an over-approximation of feasibility is sound here)"""
        s = z3.Solver()
        s.set('timeout', FEAS_TIMEOUT_MS)
        for h in self.hyps():
            if not self.has_quant(h):
                s.add(h)
        s.add(cond)
        self.stats['feas_checks'] += 1
        r = s.check()
        return r != z3.unsat

    def infeasible_report(self, cond):
        """the hypotheses became contradictory since the last feasible decision (an assumed callee post-condition or theory fact
        contradicts the state): remember where, the driver reports the path as vacuous (never as a pass)"""
        import os
        core = []
        if os.environ.get('PYVC_DEBUG_INFEASIBLE'):
            s = z3.Solver()
            s.set('timeout', 5000)
            s.set(unsat_core=True)
            hs = [h for h in self.hyps() if not self.has_quant(h)]
            for i, h in enumerate(hs):
                s.assert_and_track(h, f'h{i}')
            if s.check() == z3.unsat:
                core = [str(hs[int(str(x)[1:])])[:400] for x in s.unsat_core()]
            print('INFEASIBLE at', self.site(getattr(self, 'cur_node', None)) if hasattr(self, 'site') else '?', 'cond', str(cond)[:200])
            for x in core:
                print('   core:', x)
        self.vacuous = getattr(self, 'vacuous', []) + [str(cond)[:120]]

    def branch(self, cond):
        """branch on a z3 Bool (or python bool); returns python bool and extends the path condition"""
        if isinstance(cond, bool):
            return cond
        c = z3.simplify(cond)
        if z3.is_true(c):
            return True
        if z3.is_false(c):
            return False
        if getattr(self, 'building', 0):
            # constructing the world: every leaf is havocked afterwards and the object shape does not depend on the
            # branch taken (checked by the shape scan), so one feasible branch suffices
            d = True if self.feasible(cond) else False
            self.st.assume(cond if d else z3.Not(cond))
            return d
        try:
            d = self.oracle.decide(lambda: self.feasible(cond), lambda: self.feasible(z3.Not(cond)))
        except PathEnd:
            self.infeasible_report(cond)
            raise
        self.st.assume(cond if d else z3.Not(cond))
        return d

    def oblige(self, name, kind, goal, node=None, info=None):
        if getattr(self, 'building', 0):
            return      # shape construction of the world: not part of the function under verification
        where = None
        if node is not None and self.fn_stack:
            where = f"{self.fn_stack[-1].file}:{getattr(node, 'lineno', '?')}"
        if isinstance(goal, bool):
            goal = z3.BoolVal(goal)
        if isinstance(goal, Q):
            g = goal_of(goal)
        else:
            g = goal
        ob = Obligation(name, kind, self.hyps(), g, where, self.path_id, info)
        ob.probes = getattr(self, 'probes', {})
        self.obligations.append(ob)

    def check_or_raise(self, ok, exc, node, what):
        """implicit exception: `ok` must hold or Python raises `exc`.
        If the contract under verification declares raises(exc), the failure is a real path; otherwise an obligation."""
        if isinstance(ok, bool):
            if ok:
                return
            okz = z3.BoolVal(False)
        else:
            okz = ok
        if getattr(self, 'building', 0):
            self.st.assume(okz)
            return
        if self.declares_raise(exc):
            if not self.branch(okz):
                raise RaiseSig(exc, implicit=True, node=node)
            return
        fn = self.fn_stack[-1].qual if self.fn_stack else '?'
        self.oblige(f"exc:{fn}:{exc}:{what}@{self.site(node)}", 'exc', okz, node)
        self.st.assume(okz)

    def site(self, node):
        """identity of a program point that survives line shifts: the source text of the expression / statement"""
        import ast as _ast
        if node is None:
            return '?'
        try:
            return ' '.join(_ast.unparse(node).split())[:70]
        except Exception:
            return f"L{getattr(node, 'lineno', 0)}"

    def declares_raise(self, exc):
        c = self.cur_contract
        return bool(c and exc in c.raises)

    # ---------------------------------------------------------------- values
    def sym_num(self, base, isint=False):
        return Sym('num', z3.Real(fresh_name(base)), isint=isint)

    def sym_kind(self, kind, base, cls=None):
        if kind == 'num':
            return Sym('num', z3.Real(fresh_name(base)))
        if kind == 'int':
            x = Sym('num', z3.Real(fresh_name(base)), isint=True)
            self.st.assume(z3.IsInt(x.t))
            return x
        if kind == 'bool':
            return Sym('bool', z3.Bool(fresh_name(base)))
        return Sym(kind, z3.Int(fresh_name(base)), cls)

    def fresh_of_type(self, ty, base):
        """fresh symbolic value for a declared type string"""
        if ty in ('num', 'int', 'bool', 'str', 'any'):
            return self.sym_kind(ty, base)
        if ty == 'dframe':
            # a pandas DataFrame: an opaque id with df_rows / df_cols (assumed contracts in contracts/deps.py)
            f = Sym('dframe', z3.Int(fresh_name(base)))
            self.st.assume(z3.And(z3.Function('df_rows', I, I)(f.t) >= 0, z3.Function('df_cols', I, I)(f.t) >= 0))
            return f
        if ty.startswith('enum:'):
            return self.fresh_enum(ty[5:], base)
        if ty.startswith('list:') or ty.startswith('set:'):
            l = fresh_list(base, ty.split(':', 1)[1], isset=ty.startswith('set:'))
            self.bag_facts(l)
            return l
        if ty.startswith('dict:'):
            return self.fresh_dict(ty, base)
        if ty.startswith('opt:'):
            return self.fresh_of_type(ty[4:], base)     # may be None (0) for refs
        if ty.startswith('ref:'):
            return Sym('ref', z3.Int(fresh_name(base)), ty[4:])
        if ty in self.spec.entities:
            r = Sym('ref', z3.Int(fresh_name(base)), ty)
            self.st.assume(r.t > 0)
            return r
        if ty.startswith('obj:'):
            return self.spec.make_object(self, ty[4:])
        if ty.startswith('tuple:'):
            parts, raw = [], ty[6:].split(',')
            i = 0
            while i < len(raw):
                if 'pair:' in raw[i] and i + 1 < len(raw):
                    parts.append(raw[i] + ',' + raw[i + 1])
                    i += 2
                else:
                    parts.append(raw[i])
                    i += 1
            return TupleV([self.fresh_of_type(t, f"{base}.{i}") for i, t in enumerate(parts)])
        if ty == 'none':
            return None
        if ty.startswith('frame:'):
            # a one-row DataFrame built column by column: frame:col=type;col=type
            items = {}
            for part in ty[6:].split(';'):
                k, t = part.split('=')
                items[k] = self.fresh_of_type(t, f"{base}.{k}")
            return Record(items, label='DataFrame')
        if ty == 'proc':
            return ProcV(None, z3.Bool(fresh_name(base + '.triggered')))
        raise OutOfSubset(f"unknown type {ty}")

    def fresh_enum(self, cls, base):
        s = Sym('enum', z3.Int(fresh_name(base)), cls)
        codes = [ENUMS.code(cls, m) for m in ENUMS.enums[cls]]
        self.st.assume(z3.Or([s.t == c for c in codes]))
        return s

    def fresh_dict(self, ty, base):
        # dict:K->V  with V in num|ref:X|str|any|list:E
        v = ty.split('->', 1)[1]
        keys = z3.Const(fresh_name(base + '.keys'), BoolArr)
        nk = z3.Int(fresh_name(base + '.nk'))
        self.st.assume(nk >= 0)
        kty = ty[5:].split('->')[0]
        if kty in self.spec.entities:
            # keys are objects that exist in the pre-state
            q = z3.Int(fresh_name('dk'))
            self.st.assume(z3.ForAll([q], z3.Implies(z3.Select(keys, q), z3.And(q > 0, z3.Select(z3.Const('alloc0', BoolArr), q))),
                                     patterns=[z3.Select(keys, q)]))
        if v.startswith('list:'):
            d = DictObj(keys, nk, 'list', vcnt=z3.Const(fresh_name(base + '.vcnt'), z3.ArraySort(I, IntArr)),
                        vn=z3.Const(fresh_name(base + '.vn'), IntArr), velem=v[5:], label=base)
            self.dict_of_lists_facts(d)
        elif v == 'num':
            d = DictObj(keys, nk, 'num', vals=z3.Const(fresh_name(base + '.vals'), z3.ArraySort(I, R)), label=base)
        elif v == 'bool':
            d = DictObj(keys, nk, 'bool', vals=z3.Const(fresh_name(base + '.vals'), BoolArr), label=base)
            self.st.assume(z3.Function('cardtrue', BoolArr, BoolArr, I)(d.keys, d.vals) >= 0)
        elif v.startswith('pair:'):
            d = DictObj(keys, nk, 'pair', vals=z3.Const(fresh_name(base + '.vals'), IntArr), velem=v, label=base)
        else:
            cls = v[4:] if v.startswith('ref:') else (v if v in self.spec.entities else None)
            d = DictObj(keys, nk, 'ref' if cls else v, vals=z3.Const(fresh_name(base + '.vals'), IntArr), vcls=cls, label=base)
        if kty in self.spec.entities:
            d.kcls = kty
        return d

    def lift(self, v):
        """python constant / EnumConst -> Sym"""
        if isinstance(v, Sym):
            return v
        if isinstance(v, bool):
            return Sym('bool', z3.BoolVal(v))
        if isinstance(v, int):
            return Sym('num', z3.RealVal(v), isint=True)
        if isinstance(v, float):
            return Sym('num', z3.RealVal(repr(v)))
        if isinstance(v, str):
            return Sym('str', z3.IntVal(STRINGS.intern(v)))
        if v is None:
            return Sym('ref', z3.IntVal(0))
        if isinstance(v, EnumConst):
            return Sym('enum', z3.IntVal(v.code), v.cls)
        raise OutOfSubset(f"cannot lift {v!r}")

    def as_int_term(self, v):
        """Int-sorted z3 term for refs/strs/enums/None (element of containers, dict keys)"""
        if isinstance(v, Sym):
            if v.kind == 'num':
                return z3.ToInt(v.t) if not z3.is_int(v.t) else v.t
            if v.kind == 'bool':
                return z3.If(v.t, 1, 0)
            return v.t
        if isinstance(v, bool):
            return z3.IntVal(1 if v else 0)
        if isinstance(v, int):
            return z3.IntVal(v)
        if isinstance(v, TupleV):
            return self.tuple_code(v)
        if isinstance(v, Record) and set(v.items) == {'time', 'actor', 'observation', 'event', 'resource'}:
            # an event record {time, actor, observation, event, resource}: injective code
            f = z3.Function('mk_event', R, I, I, I, I, I)
            return f(self.num(v.items['time']), self.as_int_term(v.items['actor']), self.as_int_term(v.items['observation']),
                     self.as_int_term(v.items['event']), self.as_int_term(v.items['resource']))
        return self.lift(v).t

    # tuples inside containers: injective pairing via uninterpreted functions with ground projection facts
    def tuple_code(self, tv):
        n = len(tv.items)
        if n != 2:
            raise OutOfSubset("only pairs may be stored in containers")
        f = z3.Function('pair', I, I, I)
        a, b = self.as_int_term(tv.items[0]), self.as_int_term(tv.items[1])
        p = f(a, b)
        self.st.assume(z3.Function('fst', I, I)(p) == a)
        self.st.assume(z3.Function('snd', I, I)(p) == b)
        return p

    # ---------------------------------------------------------------- heap (entity classes)
    def field_type(self, cls, field):
        ent = self.spec.entities.get(cls)
        if ent is None or field not in ent:
            raise OutOfSubset(f"no schema for {cls}.{field}")
        ty = ent[field]
        return ty[:-4] if ty.endswith('|num') else ty

    def field_union(self, cls, field):
        """a field declared 'dict:...|num' holds a dict or a number (Task.io)"""
        return self.spec.entities.get(cls, {}).get(field, '').endswith('|num')

    def heap_arr(self, st, cls, field, sort):
        k = (cls, field)
        if k not in st.heap:
            st.heap[k] = z3.Const(f"H0!{cls}.{field}", z3.ArraySort(I, sort))
        return st.heap[k]

    def heap_read(self, ref, field, st=None):
        st = st or self.st
        cls = ref.cls
        ty = self.field_type(cls, field)
        r = ref.t
        if ty in ('num', 'int'):
            t = z3.Select(self.heap_arr(st, cls, field, R), r)
            if ty == 'int' and st is self.st:
                # typing invariant of the entity heap: 'int' fields hold whole numbers (checked at every write)
                st.assume(z3.IsInt(t))
            return Sym('num', t, isint=(ty == 'int'))
        if ty == 'bool':
            return Sym('bool', z3.Select(self.heap_arr(st, cls, field, B), r))
        if ty in ('str', 'any'):
            return Sym(ty, z3.Select(self.heap_arr(st, cls, field, I), r))
        if ty.startswith('enum:'):
            t = z3.Select(self.heap_arr(st, cls, field, I), r)
            if st is self.st and ty[5:] in ENUMS.enums:
                # typing invariant: an enum-typed field holds a member of that enum
                st.assume(z3.Or([t == ENUMS.code(ty[5:], m) for m in ENUMS.enums[ty[5:]]]))
            return Sym('enum', t, ty[5:])
        if ty.startswith('ref:') or ty.startswith('opt:ref:'):
            return Sym('ref', z3.Select(self.heap_arr(st, cls, field, I), r), ty.split('ref:')[1])
        if ty.startswith('optnum'):
            return OptNum(z3.Select(self.heap_arr(st, cls, field, R), r), z3.Select(self.heap_arr(st, cls, field + '.none', B), r))
        if ty.startswith('list:') or ty.startswith('set:'):
            l = ListObj(z3.Select(self.heap_arr(st, cls, field + '.cnt', IntArr), r),
                        z3.Select(self.heap_arr(st, cls, field + '.n', I), r), ty.split(':', 1)[1], isset=ty.startswith('set:'))
            l._seq = z3.Select(self.heap_arr(st, cls, field + '.seq', I), r)     # identity of the stored sequence value
            l.frozen = True     # value semantics: no in-place mutation through an entity field
            self.bag_facts(l, st)
            return l
        if ty.startswith('dict:'):
            v = ty.split('->', 1)[1]
            keys = z3.Select(self.heap_arr(st, cls, field + '.keys', BoolArr), r)
            nk = z3.Select(self.heap_arr(st, cls, field + '.nk', I), r)
            if v == 'num':
                d = DictObj(keys, nk, 'num', vals=z3.Select(self.heap_arr(st, cls, field + '.vals', z3.ArraySort(I, R)), r))
            else:
                d = DictObj(keys, nk, 'ref', vals=z3.Select(self.heap_arr(st, cls, field + '.vals', IntArr), r),
                            vcls=v[4:] if v.startswith('ref:') else None)
            d.frozen = True
            if self.field_union(cls, field):
                d.isnum = z3.Select(self.heap_arr(st, cls, field + '.isnum', B), r)
                d.numval = z3.Select(self.heap_arr(st, cls, field + '.num', R), r)
            return d
        raise OutOfSubset(f"heap read of {cls}.{field}: type {ty}")

    def heap_write(self, ref, field, val):
        st = self.st
        cls = ref.cls
        ty = self.field_type(cls, field)
        r = ref.t
        if ty in ('num', 'int', 'optnum'):
            if val is None and ty == 'optnum':
                a = self.heap_arr(st, cls, field + '.none', B)
                st.heap[(cls, field + '.none')] = z3.Store(a, r, z3.BoolVal(True))
                return
            v = self.num(val)
            if ty == 'int' and not (isinstance(val, int) or getattr(val, 'isint', False)):
                fn = self.fn_stack[-1].qual if self.fn_stack else '?'
                self.oblige(f"type:{fn}:{cls}.{field}-holds-a-whole-number", 'exc', z3.IsInt(v))
            a = self.heap_arr(st, cls, field, R)
            st.heap[(cls, field)] = z3.Store(a, r, v)
            if ty == 'optnum':
                a = self.heap_arr(st, cls, field + '.none', B)
                st.heap[(cls, field + '.none')] = z3.Store(a, r, z3.BoolVal(False))
            return
        if ty == 'bool':
            a = self.heap_arr(st, cls, field, B)
            st.heap[(cls, field)] = z3.Store(a, r, self.truth(val))
            return
        if ty in ('str', 'any') or ty.startswith('enum:') or ty.startswith('ref:') or ty.startswith('opt:ref:'):
            a = self.heap_arr(st, cls, field, I)
            st.heap[(cls, field)] = z3.Store(a, r, self.as_int_term(val))
            return
        if ty.startswith('list:') or ty.startswith('set:'):
            if val is None or isinstance(val, (int, float)):
                val = empty_list()      # None / 0 in a list-typed entity field: modelled as empty (ingest tasks only)
            if not isinstance(val, ListObj):
                raise OutOfSubset(f"store of non-list into {cls}.{field}")
            a = self.heap_arr(st, cls, field + '.cnt', IntArr)
            st.heap[(cls, field + '.cnt')] = z3.Store(a, r, val.cnt)
            a = self.heap_arr(st, cls, field + '.n', I)
            st.heap[(cls, field + '.n')] = z3.Store(a, r, val.n)
            a = self.heap_arr(st, cls, field + '.seq', I)
            st.heap[(cls, field + '.seq')] = z3.Store(a, r, val.seq)
            # entity fields hold containers BY VALUE in this encoding; Python stores a reference.  The two agree as long as the
            # container is not mutated after it has been stored: from here on any in-place mutation of it leaves the subset
            val.frozen = True
            return
        if ty.startswith('dict:'):
            if self.field_union(cls, field):
                # union field: record whether a number was stored (and which); a dict or None is not a number
                if isinstance(val, (int, float)) and not isinstance(val, bool):
                    isn, nv = z3.BoolVal(True), to_real(val)
                elif isinstance(val, Sym) and val.kind == 'num':
                    isn, nv = z3.BoolVal(True), to_real(val.t)
                    val = 0
                elif isinstance(val, DictObj) and getattr(val, 'isnum', None) is not None:
                    isn, nv = val.isnum, val.numval
                else:
                    isn, nv = z3.BoolVal(False), z3.RealVal(0)
                a = self.heap_arr(st, cls, field + '.isnum', B)
                st.heap[(cls, field + '.isnum')] = z3.Store(a, r, isn)
                a = self.heap_arr(st, cls, field + '.num', R)
                st.heap[(cls, field + '.num')] = z3.Store(a, r, nv)
            if val is None or isinstance(val, (int, float)):
                val = self.empty_dict('num' if ty.endswith('->num') else 'any')
            if not isinstance(val, DictObj):
                raise OutOfSubset(f"store of non-dict into {cls}.{field}")
            if ty.endswith('->num') and val.vkind != 'num':
                if z3.is_app(val.vals) and val.vals.decl().kind() == z3.Z3_OP_CONST_ARRAY:
                    val = self.empty_dict('num') if z3.is_int_value(z3.simplify(val.nk)) else val
                if val.vkind != 'num':
                    raise OutOfSubset(f"store of a dict of {val.vkind} into {cls}.{field} (dict of numbers)")
            a = self.heap_arr(st, cls, field + '.keys', BoolArr)
            st.heap[(cls, field + '.keys')] = z3.Store(a, r, val.keys)
            a = self.heap_arr(st, cls, field + '.nk', I)
            st.heap[(cls, field + '.nk')] = z3.Store(a, r, val.nk)
            vs = R if val.vkind == 'num' else I
            a = self.heap_arr(st, cls, field + '.vals', z3.ArraySort(I, vs))
            st.heap[(cls, field + '.vals')] = z3.Store(a, r, val.vals)
            val.frozen = True       # (as for lists: stored by value, so no mutation through the alias afterwards)
            return
        raise OutOfSubset(f"heap write of {cls}.{field}: type {ty}")

    def heap_isnone(self, ref, field, st=None):
        st = st or self.st
        return z3.Select(self.heap_arr(st, ref.cls, field + '.none', B), ref.t)

    # ---------------------------------------------------------------- coercions
    def num(self, v):
        """z3 Real term of a numeric value"""
        if isinstance(v, OptNum):
            self.check_or_raise(z3.Not(v.none), 'TypeError', None, 'None used as a number')
            return to_real(v.t)
        if isinstance(v, Sym):
            if v.kind == 'num':
                return to_real(v.t)
            if v.kind == 'bool':
                return z3.If(v.t, z3.RealVal(1), z3.RealVal(0))
            if v.kind == 'any':
                # an uninterpreted value used as a number: its numeric reading
                return z3.Function('num_of', I, R)(v.t)
            raise OutOfSubset(f"TypeError: {v.kind} used as a number")
        if isinstance(v, (bool, int, float)):
            return to_real(v)
        raise OutOfSubset(f"TypeError: {type(v).__name__} used as a number")

    def truth(self, v):
        """python truthiness as z3 Bool (or python bool)"""
        if isinstance(v, bool):
            return z3.BoolVal(v)
        if v is None:
            return z3.BoolVal(False)
        if isinstance(v, (int, float)):
            return z3.BoolVal(bool(v))
        if isinstance(v, str):
            return z3.BoolVal(bool(v))
        if isinstance(v, EnumConst):
            val = v.value
            # Enum members are truthy unless a mixin type says otherwise (str/int mixin: value truthiness)
            bases = self.src.bases.get(v.cls, [])
            if any(b in ('str', 'int') for b in bases):
                return z3.BoolVal(bool(val))
            return z3.BoolVal(True)
        if isinstance(v, Sym):
            if v.kind == 'bool':
                return v.t
            if v.kind == 'num':
                return to_real(v.t) != 0
            if v.kind in ('ref', 'any'):
                return v.t != 0
            if v.kind == 'enum':
                return z3.BoolVal(True)
            if v.kind == 'str':
                return v.t != STRINGS.intern('')
        if isinstance(v, ListObj):
            return v.n > 0
        if isinstance(v, DictObj):
            if getattr(v, 'isnum', None) is not None:
                return z3.If(v.isnum, v.numval != 0, v.nk > 0)
            return v.nk > 0
        if isinstance(v, PyList):
            return z3.BoolVal(len(v.items) > 0)
        if isinstance(v, Record):
            return z3.BoolVal(len(v.items) > 0)
        if isinstance(v, (ObjV, ProcV, GenV, TupleV, BoundMethod)):
            return z3.BoolVal(True)       # objects, processes, non-empty tuples and bound methods are truthy
        raise OutOfSubset(f"truthiness of {v!r}")

    # ---------------------------------------------------------------- bags
    def bag_facts(self, l, st=None):
        """theory of finite multisets (true of every Python list): ground/quantified facts about (cnt, n)"""
        st = st or self.st
        key = (l.cnt.sexpr() if z3.is_ast(l.cnt) else str(l.cnt), l.n.sexpr())
        seen = st.ghost.setdefault('_bagfacts', set())
        if key in seen:
            return
        seen.add(key)
        cnt, n = l.cnt, l.n
        x = z3.Int(fresh_name('bx'))
        st.assume(n >= 0)

        is_lam = z3.is_quantifier(cnt) and cnt.is_lambda()

        def fa(body):
            if is_lam:
                return z3.ForAll([x], body)     # cnt is a lambda (dependency-defined list): no select pattern
            return z3.ForAll([x], body, patterns=[z3.Select(cnt, x)])
        st.assume(fa(z3.Select(cnt, x) >= 0))
        st.assume(fa(z3.Implies(z3.Select(cnt, x) > 0, n >= z3.Select(cnt, x))))
        st.assume(z3.Implies(n == 0, cnt == EMPTY_CNT))
        if l.isset:
            st.assume(fa(z3.Select(cnt, x) <= 1))

    def elem_value(self, l, t):
        """wrap an Int element term according to the list's element hint"""
        e = l.elem or 'any'
        if e.startswith('ref:'):
            return Sym('ref', t, e[4:])
        if e in self.spec.entities:
            return Sym('ref', t, e)
        if e == 'num':
            return Sym('num', z3.ToReal(t))
        if e == 'str':
            return Sym('str', t)
        if e.startswith('enum:'):
            return Sym('enum', t, e[5:])
        if e.startswith('pair:'):
            a, b = e[5:].split(',')
            fa = Sym('ref', z3.Function('fst', I, I)(t), a) if a in self.spec.entities else Sym('any', z3.Function('fst', I, I)(t))
            fb = Sym('ref', z3.Function('snd', I, I)(t), b) if b in self.spec.entities else Sym('any', z3.Function('snd', I, I)(t))
            return TupleV([fa, fb])
        return Sym('any', t)

    def list_append(self, l, v, node=None):
        if l.frozen:
            raise OutOfSubset("mutation of a list that is being iterated or is an entity field")
        t = self.as_int_term(v)
        self.note_elem(l, v)
        if l.isset:
            c = z3.Select(l.cnt, t)
            l.n = z3.If(c > 0, l.n, l.n + 1)
            l.cnt = z3.Store(l.cnt, t, z3.IntVal(1))
        else:
            old_seq = l.seq if getattr(l, 'track_pos', False) else None
            old_n = l.n
            l.cnt = z3.Store(l.cnt, t, z3.Select(l.cnt, t) + 1)
            l.n = l.n + 1
            l.last = t
            if old_seq is not None:
                # positions: append keeps the earlier items where they were and puts x at the end
                AT = z3.Function('at', I, I, I)
                j = z3.Int(fresh_name('apj'))
                new_seq = l.seq
                self.st.assume(AT(new_seq, old_n) == t)
                self.st.assume(z3.ForAll([j], z3.Implies(z3.And(0 <= j, j < old_n), AT(new_seq, j) == AT(old_seq, j)),
                                         patterns=[AT(new_seq, j)]))

    def note_elem(self, l, v):
        if l.elem is None:
            if isinstance(v, Sym) and v.kind == 'ref' and v.cls:
                l.elem = v.cls
            elif isinstance(v, Sym) and v.kind in ('str', 'num'):
                l.elem = v.kind
            elif isinstance(v, TupleV) and len(v.items) == 2:
                def k(x):
                    return x.cls if isinstance(x, Sym) and x.kind == 'ref' and x.cls else 'any'
                l.elem = f"pair:{k(v.items[0])},{k(v.items[1])}"

    def list_remove(self, l, v, node=None):
        if l.frozen:
            raise OutOfSubset("mutation of a list that is being iterated or is an entity field")
        t = self.as_int_term(v)
        self.bag_facts(l)
        self.check_or_raise(z3.Select(l.cnt, t) > 0, 'ValueError', node, 'list.remove(x): x not in list')
        l.cnt = z3.Store(l.cnt, t, z3.Select(l.cnt, t) - 1)
        l.n = l.n - 1

    def list_contains(self, l, v):
        self.bag_facts(l)
        return z3.Select(l.cnt, self.as_int_term(v)) > 0

    def list_pick(self, l, node, what, remove=False, want_last=False):
        """an arbitrary element (l[i], l[0], l[-1], pop()): order is abstracted, except that the element appended last
        is remembered until the next other mutation"""
        self.bag_facts(l)
        self.check_or_raise(l.n > 0, 'IndexError', node, what)
        if want_last and getattr(l, 'last', None) is not None:
            e = l.last
        else:
            e = z3.Int(fresh_name('pick'))
            self.st.assume(z3.Select(l.cnt, e) > 0)
        if remove:
            if l.frozen:
                raise OutOfSubset("pop on frozen list")
            l.cnt = z3.Store(l.cnt, e, z3.Select(l.cnt, e) - 1)
            l.n = l.n - 1
        return self.elem_value(l, e)

    def list_copy(self, l):
        c = ListObj(l.cnt, l.n, l.elem, l.isset)
        c.hash_ordered = getattr(l, 'hash_ordered', False) or l.isset
        if not l.isset:
            c._seq = l.seq
        return c

    def list_slice_prefix(self, l, k):
        """l[:k] : a sub-multiset of size min(max(k,0), n)"""
        self.bag_facts(l)
        s = fresh_list('slice', l.elem)
        kk = z3.ToInt(self.num(k)) if not isinstance(k, int) else z3.IntVal(k)
        x = z3.Int(fresh_name('sx'))
        self.st.assume(z3.ForAll([x], z3.And(z3.Select(s.cnt, x) >= 0, z3.Select(s.cnt, x) <= z3.Select(l.cnt, x)),
                                 patterns=[z3.Select(s.cnt, x)]))
        self.st.assume(s.n == z3.If(kk <= 0, 0, z3.If(kk <= l.n, kk, l.n)))
        self.st.assume(z3.Implies(s.n == l.n, s.cnt == l.cnt))
        self.bag_facts(s)
        return s

    # ---------------------------------------------------------------- dicts
    def dict_has(self, d, k):
        return z3.Select(d.keys, self.as_int_term(k))

    def dict_get(self, d, k, node, default=NotImplemented):
        kt = self.as_int_term(k)
        has = z3.Select(d.keys, kt)
        if default is NotImplemented:
            self.check_or_raise(has, 'KeyError', node, 'dict[key]')
        if d.vkind == 'list':
            return DictEntryList(d, kt, d.velem)
        t = z3.Select(d.vals, kt)
        if d.vkind == 'row':
            return Opaque('row')
        if d.vkind == 'num':
            v = Sym('num', t)
        elif d.vkind == 'bool':
            v = Sym('bool', t)
        elif d.vkind == 'ref':
            v = Sym('ref', t, d.vcls)
        elif d.vkind == 'pair':
            v = self.elem_value(ListObj(None, None, d.velem), t)
        else:
            v = Sym(d.vkind, t)
        if default is not NotImplemented:
            dv = default
            if d.vkind == 'num':
                return Sym('num', z3.If(has, v.t, self.num(dv)))
            return Sym(v.kind, z3.If(has, v.t, self.as_int_term(dv)), v.cls)
        return v

    def dict_set(self, d, k, v):
        if getattr(d, 'frozen', False):
            raise OutOfSubset("mutation of a dict that is an entity field")
        kt = self.as_int_term(k)
        has = z3.Select(d.keys, kt)
        old_keys = d.keys
        d.nk = z3.If(has, d.nk, d.nk + 1)
        d.keys = z3.Store(d.keys, kt, z3.BoolVal(True))
        if d.vkind == 'any' and z3.is_int_value(z3.simplify(old_keys[kt] if False else z3.IntVal(0))) and \
                ((isinstance(v, Sym) and v.kind == 'num') or (isinstance(v, (int, float)) and not isinstance(v, bool))) and \
                z3.is_app(d.vals) and d.vals.decl().kind() == z3.Z3_OP_CONST_ARRAY:
            # a still-empty untyped dict literal receives its first number: it is a dict of numbers
            d.vkind = 'num'
            d.vals = z3.K(I, z3.RealVal(0))
        if d.vkind == 'list':
            if not isinstance(v, ListObj):
                raise OutOfSubset("dict of lists: storing a non-list")
            d.vcnt = z3.Store(d.vcnt, kt, v.cnt)
            d.vn = z3.Store(d.vn, kt, v.n)
            if d.velem is None:
                d.velem = v.elem
        elif d.vkind == 'num':
            d.vals = z3.Store(d.vals, kt, self.num(v))
        elif d.vkind == 'bool':
            # ground cardinality fact: number of keys mapped to True (DESIGN 5.5)
            ct = z3.Function('cardtrue', BoolArr, BoolArr, I)
            nv = self.truth(v)
            new_vals = z3.Store(d.vals, kt, nv)
            self.st.assume(ct(d.keys, new_vals) == ct(old_keys, d.vals)
                           + z3.If(nv, 1, 0) - z3.If(z3.And(has, z3.Select(d.vals, kt)), 1, 0))
            d.vals = new_vals
        else:
            if isinstance(v, TupleV):
                d.vkind = 'pair'
                self.note_elem(d_as_list(d), v)
            if isinstance(v, (DictObj, Record)):
                # a dict of dicts (table rows): only the key set is modelled, the row is an opaque object
                d.vkind = 'row'
                d.vals = z3.Store(d.vals, kt, z3.Int(fresh_name('row')))
                return
            d.vals = z3.Store(d.vals, kt, self.as_int_term(v))
            if isinstance(v, Sym) and v.kind == 'ref' and v.cls and d.vcls is None:
                d.vcls = v.cls
                d.vkind = 'ref'

    def dict_pop(self, d, k, node, has_default):
        kt = self.as_int_term(k)
        has = z3.Select(d.keys, kt)
        if not has_default:
            self.check_or_raise(has, 'KeyError', node, 'dict.pop(key)')
        d.nk = z3.If(has, d.nk - 1, d.nk)
        d.keys = z3.Store(d.keys, kt, z3.BoolVal(False))

    def empty_dict(self, vkind='any', label=None):
        keys = z3.K(I, z3.BoolVal(False))
        if vkind == 'list':
            return DictObj(keys, z3.IntVal(0), 'list', vcnt=z3.K(I, EMPTY_CNT), vn=z3.K(I, z3.IntVal(0)), label=label)
        if vkind == 'num':
            return DictObj(keys, z3.IntVal(0), 'num', vals=z3.K(I, z3.RealVal(0)), label=label)
        if vkind == 'bool':
            ct = z3.Function('cardtrue', BoolArr, BoolArr, I)
            self.st.assume(ct(keys, z3.K(I, z3.BoolVal(False))) == 0)
            return DictObj(keys, z3.IntVal(0), 'bool', vals=z3.K(I, z3.BoolVal(False)), label=label)
        return DictObj(keys, z3.IntVal(0), vkind, vals=z3.K(I, z3.IntVal(0)), label=label)


class _DL:
    pass


def d_as_list(d):
    """adapter so note_elem can record the pair element hint on a dict"""
    class A:
        pass
    a = A()
    a.elem = d.velem

    class P:
        def __init__(self, d):
            object.__setattr__(self, 'd', d)

        def __getattr__(self, k):
            if k == 'elem':
                return self.d.velem
            raise AttributeError(k)

        def __setattr__(self, k, v):
            if k == 'elem':
                self.d.velem = v
    return P(d)
