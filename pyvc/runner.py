"""Property-level check runner: obligations of a property -> verdicts -> evidence, replay files, exit code.

exit 0: every obligation discharged (known findings printed) ; 1: violation ; 2: undecided ; 3: checker error
"""
import json
import multiprocessing as mp
import os
import re
import subprocess
import sys
import time
import traceback

import z3

VERIF = os.path.dirname(os.path.dirname(os.path.abspath(__file__)))
sys.path.insert(0, VERIF)

from pyvc.source import Source          # noqa: E402
from pyvc.driver import Verifier        # noqa: E402
from pyvc import solve                  # noqa: E402

TRUSTED_BASE = [
    "pyvc itself (the AST->SMT encoder of /verif/pyvc; DESIGN.md section 5 lists the Python semantics it assumes)",
    "z3 5.1 (z3-solver wheel), cvc5 1.0.3 and z3 4.8.12 as back ends",
    "float arithmetic treated as exact real arithmetic; Python int unbounded",
    "list element order abstracted (multisets); set/dict iteration order arbitrary",
    "induction over histories for class invariants and the segment rule for cooperative SimPy processes (meta-rules, not re-proved)",
    "Machine objects are identified with their ids (Machine.__eq__ compares ids; config keys are unique)",
]


def owns(ob_name, prop, fn_props):
    """every obligation of a function belongs to every property that depends on that function (the Cxx- tags in clause names
    only say which statement a clause was transcribed from); a function pulled in for another property's determinism scan
    contributes only its clauses tagged with that property"""
    if prop in fn_props:
        return True
    tags = re.findall(r'(?<![A-Za-z0-9])(C\d\d)-', ob_name)
    return prop in tags


def gen_function(args):
    """phase 1 worker: obligations of one function, as SMT-LIB text"""
    qual, = args
    from contracts import REG
    t0 = time.time()
    try:
        src = Source()
        v = Verifier(src, REG)
        rep = v.verify(qual)
        obs = []
        for ob in rep.obligations:
            g = z3.simplify(ob.goal)
            triv = z3.is_true(g)
            obs.append(dict(name=ob.name, kind=ob.kind, where=ob.where, path=ob.path, trivial=triv, const_false=z3.is_false(g),
                            smt2=None if triv else solve.to_smt2(ob), ground=not triv))
        # vacuity canaries: per path, the hypotheses of its last obligation with goal False must NOT be provable
        last = {}
        for ob in rep.obligations:
            last[ob.path] = ob
        for pid, ob in last.items():
            s = z3.Solver()
            for h in ob.hyps:
                s.add(h)
            obs.append(dict(name=f"cover:{qual}:path{pid}", kind='cover', where=ob.where, path=pid, trivial=False,
                            smt2=s.to_smt2()))
        status, reason = rep.status, rep.reason
        if status == 'ok' and rep.outcomes.get('infeasible'):
            # the hypotheses of a path became contradictory after its last feasible decision: an assumed callee post-condition
            # or invariant contradicts the state reached.  Everything on such a path would be 'proved'; it is not a pass.
            status, reason = 'vacuous-path', (f"{rep.outcomes['infeasible']} path(s) end in contradictory hypotheses "
                                              f"(at: {'; '.join(getattr(rep, 'vacuous', [])[:2])})")
        return dict(qual=qual, status=status, reason=reason, paths=rep.paths, outcomes=rep.outcomes,
                    obligations=obs, erased=rep.erased, assumed=rep.assumed, file=rep.file, lineno=rep.lineno,
                    callees=getattr(rep, 'callees', []), seconds=round(time.time() - t0, 2))
    except Exception as e:
        tb = traceback.format_exc()
        if isinstance(e, (KeyError, AttributeError, IndexError)) and '/contracts/' in tb.split('\n')[-4:][0] + tb:
            # the sidecar names a local / field / loop that the function no longer has: the contract does not fit the code any more
            last = [l for l in tb.splitlines() if l.strip()][-1]
            return dict(qual=qual, status='contract-mismatch', reason=f"the contract of {qual} refers to something the code no longer has ({last})",
                        obligations=[], paths=0, outcomes={}, erased=[], assumed=[], file=None, lineno=None, callees=[], seconds=round(time.time() - t0, 2))
        return dict(qual=qual, status='checker-error', reason=tb, obligations=[], paths=0, outcomes={},
                    erased=[], assumed=[], file=None, lineno=None, callees=[], seconds=round(time.time() - t0, 2))


def gen_lemma(args):
    name, = args
    from contracts import REG
    for nm, props, fn in REG.lemmas:
        if nm == name:
            try:
                hyps, goal = fn()
                s = z3.Solver()
                for h in hyps:
                    s.add(h)
                s.add(z3.Not(goal))
                return dict(name=f"lemma:{nm}", kind='lemma', where='contracts', path=0, trivial=False, smt2=s.to_smt2())
            except Exception:
                return dict(name=f"lemma:{nm}", kind='lemma', error=traceback.format_exc())
    return None


def run_property(prop, tier='quick', seed=0, out=sys.stdout):
    t_start = time.time()
    from contracts import REG, PROPERTY_NOTES
    procs = int(os.environ.get('PYVC_PROCS', '14'))
    quals = sorted(q for q, c in REG.contracts.items() if prop in c.props and not c.assumed)
    if prop == 'C10':
        # determinism obligations can arise in any function that iterates, sorts, reads the clock or draws random numbers
        src0 = Source()
        for q, c in REG.contracts.items():
            fi = src0.funcs.get(q)
            if fi is not None and not c.assumed and q not in quals and any(
                    k in fi.src for k in ('for ', 'sorted(', 'set(', 'time.', 'default_rng', 'random')):
                quals.append(q)
        quals = sorted(quals)
    lemmas = [nm for nm, props, fn in REG.lemmas if prop in props]
    ctx = mp.get_context('fork')
    # one fresh process per function: no state (interned codes, caches) can leak from one function's verification to another's
    reps = []
    via = {}
    todo = list(quals)
    seen_q = set(quals)
    while todo:
        with ctx.Pool(min(procs, max(1, len(todo))), maxtasksperchild=1) as pool:
            batch = pool.map(gen_function, [(q,) for q in todo], chunksize=1)
        reps.extend(batch)
        # callee closure: the modular proof of a function rests on the contracts of the in-tree functions it calls and of the
        # processes it spawns; those bodies are verified in the same check (all their obligations count for this property)
        todo = []
        for rep in batch:
            for cq in rep.get('callees', []):
                if cq.startswith('spawn:'):
                    # processes spawned: their bodies are pulled in at the thorough tier only (a spawner relies on the spawned
                    # generator's entry precondition, which is its own obligation; the whole-process behaviour is the
                    # property-level argument)
                    if tier != 'thorough':
                        continue
                    cq = cq[6:]
                cc = REG.contracts.get(cq)
                if cc is not None and not cc.assumed and cq not in seen_q and prop != 'C10':
                    seen_q.add(cq)
                    via[cq] = rep['qual']
                    todo.append(cq)
    quals = sorted(seen_q)
    lem_obs = [gen_lemma((nm,)) for nm in lemmas]
    # ---- collect the property's obligations
    errors, undecided_fn = [], []
    allobs = []
    fn_summ = []
    for rep in reps:
        c = REG.contracts[rep['qual']]
        if rep['status'] == 'checker-error':
            errors.append(f"{rep['qual']}: {rep['reason']}")
            continue
        if rep['status'] != 'ok':
            undecided_fn.append(f"{rep['qual']}: {rep['status']}: {rep['reason']}")
        mine = [o for o in rep['obligations'] if owns(o['name'], prop, list(c.props) + ([prop] if rep['qual'] in via else []))]
        for o in mine:
            o['function'] = rep['qual']
        allobs.extend(mine)
        fn_summ.append(dict(function=rep['qual'], file=rep['file'], line=rep['lineno'], paths=rep['paths'],
                            outcomes=rep['outcomes'], obligations=len(mine), status=rep['status'], gen_seconds=rep['seconds'],
                            **({'included_as_callee_of': via[rep['qual']]} if rep['qual'] in via else {}),
                            erased=[list(e) for e in rep['erased']], assumed_dependency_contracts=rep['assumed']))
    for o in lem_obs:
        if o is None:
            continue
        if 'error' in o:
            errors.append(o['name'] + ': ' + o['error'])
            continue
        o['function'] = 'lemma'
        allobs.append(o)
    # ---- discharge
    jobs = [(i, o['smt2'], 'cover' if o['kind'] == 'cover' else tier, 'reach' if o.get('const_false') else o.get('ground')) for i, o in enumerate(allobs) if not o['trivial']]
    for o in allobs:
        if o['trivial']:
            o['result'] = dict(verdict='unsat', solver='simplifier', seconds=0.0, model=None, log=[])
    if jobs:
        with ctx.Pool(min(procs, len(jobs))) as pool:
            for idx, verdict, solver, dt, model, log in pool.imap_unordered(solve.solve_one, jobs, chunksize=1):
                allobs[idx]['result'] = dict(verdict=verdict, solver=solver, seconds=round(dt, 3), model=model, log=log)
    # ---- verdicts
    known = load_known()
    violated, undecided, discharged = [], [], 0
    by_solver = {}
    solver_time = 0.0
    covers = [o for o in allobs if o['kind'] == 'cover']
    allobs = [o for o in allobs if o['kind'] != 'cover']
    covers_ok = 0
    by_fn = {}
    for o in covers:
        by_fn.setdefault(o['function'], []).append(o)
        if o['result']['verdict'] != 'unsat':
            covers_ok += 1
    for fn, cs in by_fn.items():
        if all(o['result']['verdict'] == 'unsat' for o in cs):
            errors.append(f"vacuous: the hypotheses of every path of {fn} are contradictory (precondition / invariant / assumed contract)")
    for o in allobs:
        r = o['result']
        solver_time += r['seconds']
        if r['verdict'] == 'unsat':
            discharged += 1
            by_solver[r['solver']] = by_solver.get(r['solver'], 0) + 1
        elif r['verdict'] == 'disagree':
            errors.append(f"solver disagreement on {o['name']}: {r['solver']}")
        elif r['verdict'] in ('sat', 'candidate') and re.match(r'^pre:.*:inv:', o['name']):
            # a callee that was verified under a class / heap invariant is called where that invariant does not (provably) hold:
            # its contract cannot be relied on at this site.  That is a gap in the proof ("needs contract"), not by itself a
            # violation of the property: undecided (the bounded fallback then runs the real code)
            r['log'] = list(r.get('log') or []) + [('classification', 'callee invariant not established at the call site: proof gap, not a property violation', 0)]
            undecided.append(o)
        elif r['verdict'] in ('sat', 'candidate'):
            violated.append(o)
        else:
            undecided.append(o)
    # group violations by obligation name (several paths may violate the same clause)
    vio_names = {}
    for o in violated:
        vio_names.setdefault(o['name'], []).append(o)
    known_printed, new_violations = [], []
    for name, obs in sorted(vio_names.items()):
        kf = [k for k in known if k.get('obligation') == name and k.get('status', 'open') == 'open']
        if kf:
            line = (f"KNOWN-FINDING: property={kf[0].get('property', prop)} {kf[0]['what']} [obligation {name}]"
                    + ("" if kf[0].get('property', prop) == prop else f" (met in a callee while checking {prop})"))
            print(line, file=out)
            known_printed.append(line)
        else:
            new_violations.append((name, obs))
    rdir = os.path.join(VERIF, 'replays', prop)
    os.makedirs(rdir, exist_ok=True)
    for f in os.listdir(rdir):
        try:
            os.unlink(os.path.join(rdir, f))
        except OSError:
            pass
    vio_lines = []
    confirmed = []
    pending_lines = []       # (name, path, replay_ok)
    for name, obs in new_violations:
        path = write_replay(prop, name, obs)
        ok, note = try_replay(path)
        if not ok and all(o['result']['verdict'] == 'candidate' for o in obs):
            # only a candidate of the weakened query and the real code does not reproduce it: not a verdict
            for o in obs:
                undecided.append(o)
            continue
        pending_lines.append((name, path, ok))
        confirmed.append((name, obs))
    new_violations = confirmed
    if any(not ok for _, _, ok in pending_lines) and os.environ.get('PYVC_NO_SIMMON') != '1':
        # violations without a native replay of their own: look for a failing run of the real code with the bounded simulation monitor
        bpath = os.path.join(rdir, f'bounded_simulations_{prop}.json')
        json.dump(dict(property=prop, obligation=f"bounded-simulations property={prop}", function='__simmon__', source=None,
                       for_obligations=[n for n, _, ok in pending_lines if not ok],
                       counterexamples=[dict(path=0, where=None, solver='bounded', model={}, solver_log=[])], replayed=False),
                  open(bpath, 'w'), indent=1)
        bok, _ = try_replay(bpath)
        if bok:
            for i, (name, path, ok) in enumerate(pending_lines):
                if not ok:
                    try:
                        d = json.load(open(path))
                        d['failing_run_of_the_real_code'] = bpath
                        json.dump(d, open(path, 'w'), indent=1, default=str)
                    except Exception:
                        pass
                    pending_lines[i] = (name, path, 'bounded')
    for name, path, ok in pending_lines:
        suffix = '' if ok else ' no-failing-input-found'
        extra = f" (failing run of the real code: {os.path.join(rdir, 'bounded_simulations_' + prop + '.json')})" if ok == 'bounded' else ''
        line = f"VIOLATION property={prop} replay={path} obligation={name}{suffix}{extra}"
        print(line, file=out)
        vio_lines.append(line)
    still = []
    for o in undecided:
        kf = [k for k in known if k.get('obligation') == o['name'] and k.get('status', 'open') == 'open']
        if kf:
            # a recorded finding whose obligation is (as expected) not provable: the solvers need not re-find the witness
            line = (f"KNOWN-FINDING: property={kf[0].get('property', prop)} {kf[0]['what']} [obligation {o['name']}]"
                    + ("" if kf[0].get('property', prop) == prop else f" (met in a callee while checking {prop})"))
            if line not in known_printed:
                print(line, file=out)
                known_printed.append(line)
        else:
            still.append(o)
    undecided = still
    # a function that left the verifier's subset (or lost its contract anchor): bounded fallback by its native replay builder,
    # enumerating the builder's own small scope on the real code. A failure found there is a real failing input.
    fallback_lines = []
    still_fn = []
    for u in undecided_fn:
        fn = u.split(':', 1)[0]
        path = os.path.join(rdir, 'bounded_' + re.sub(r'[^A-Za-z0-9_.-]+', '_', fn) + '.json')
        json.dump(dict(property=prop, obligation=f"bounded:{fn}", function=fn, source=None,
                       counterexamples=[dict(path=0, where=None, solver='bounded-fallback', model={}, solver_log=[u])], replayed=False),
                  open(path, 'w'), indent=1)
        ok, note = try_replay(path)
        if ok:
            line = f"VIOLATION property={prop} replay={path} obligation=bounded:{fn} (symbolic verification undecided: {u.split(':', 2)[-1].strip()[:80]}; found by the bounded native fallback)"
            print(line, file=out)
            fallback_lines.append((f"bounded:{fn}", []))
        else:
            still_fn.append(u)
    undecided_fn = still_fn
    new_violations = new_violations + fallback_lines
    # anything still undecided: the bounded simulation monitor with this property's oracles (real code, small scope)
    bounded_note = None
    if (undecided or undecided_fn) and os.environ.get('PYVC_NO_SIMMON') != '1':
        path = os.path.join(rdir, f'bounded_simulations_{prop}.json')
        what = [o['name'] for o in undecided][:20] + undecided_fn[:10]
        json.dump(dict(property=prop, obligation=f"bounded-simulations property={prop}", function='__simmon__', source=None,
                       undecided_obligations=what,
                       counterexamples=[dict(path=0, where=None, solver='bounded-fallback', model={}, solver_log=[])], replayed=False),
                  open(path, 'w'), indent=1)
        ok, note = try_replay(path)
        bounded_note = dict(ran=True, violation_found=ok, replay=path)
        if ok:
            line = (f"VIOLATION property={prop} replay={path} obligation=bounded-simulations ({len(what)} obligations undecided by the "
                    f"solvers, e.g. {what[0][:120]}; a failing run of the real code was found by the bounded simulation monitor)")
            print(line, file=out)
            new_violations = new_violations + [(f"bounded-simulations:{prop}", [])]
            undecided, undecided_fn = [], []
    for o in undecided:
        print(f"UNDECIDED property={prop} obligation={o['name']} ({'; '.join(str(x) for x in o['result']['log'])})", file=out)
    for u in undecided_fn:
        print(f"UNDECIDED property={prop} {u}", file=out)
    for e in errors:
        print(f"CHECKER-ERROR property={prop} {e}", file=out)
    # thorough tier: the bounded simulation monitor is run for the property in any case (labelled bounded, not counted as proof)
    thorough_bounded = None
    if tier == 'thorough' and os.environ.get('PYVC_NO_SIMMON') != '1':
        path = os.path.join(rdir, f'thorough_simulations_{prop}.json')
        json.dump(dict(property=prop, obligation=f"bounded-simulations property={prop}", function='__simmon__', source=None,
                       counterexamples=[dict(path=0, where=None, solver='bounded', model={}, solver_log=[])], replayed=False),
                  open(path, 'w'), indent=1)
        ok, note = try_replay(path)
        try:
            rr = json.load(open(path)).get('replay_runs', [{}])[-1]
        except Exception:
            rr = {}
        thorough_bounded = dict(kind='bounded simulation monitor (never counted as discharged)', scope=rr.get('scope'),
                                failures=rr.get('failures'), observed=rr.get('observed'), known_findings=rr.get('known_findings', []))
        for kfl in rr.get('known_findings', []):
            print(f"KNOWN-FINDING: property={prop} bounded-simulations {kfl}", file=out)
        if ok:
            print(f"VIOLATION property={prop} replay={path} obligation=bounded-simulations (thorough tier: a failing run of the real code)", file=out)
            new_violations = new_violations + [(f"bounded-simulations:{prop}", [])]
    nobl = len(allobs)
    kf_names = set(k.get('obligation') for k in known if k.get('status', 'open') == 'open')
    n_known_obl = sum(1 for o in allobs if o['name'] in kf_names and o['result']['verdict'] != 'unsat')
    if nobl == 0 and not errors:
        errors.append("zero obligations generated")
        print(f"CHECKER-ERROR property={prop} zero obligations generated", file=out)
    # ---- evidence
    samples = []
    for o in allobs[:2000]:
        if not o['trivial'] and len(samples) < 3 and o['kind'] in ('post', 'inv', 'yield', 'lemma'):
            samples.append(dict(obligation=o['name'], function=o['function'], where=o['where'],
                                verdict=o['result']['verdict'], solver=o['result']['solver'], seconds=o['result']['seconds'],
                                smt2_head=o['smt2'][-1500:]))
    ev = dict(
        property_id=prop, tier=tier, seed=seed, level='proof',
        coverage=dict(
            # obligations of recorded known findings are not part of the proof claim: they are counted separately
            obligations=nobl - n_known_obl, discharged=discharged,
            known_finding_obligations=n_known_obl,
            checker_cmd=f"./check {prop} --tier {tier}",
            trusted_base=TRUSTED_BASE + PROPERTY_NOTES.get(prop, {}).get('assumptions', []),
            functions_under_contract=fn_summ,
            discharged_by_backend=by_solver,
            solver_seconds=round(solver_time, 2),
            slowest=[dict(obligation=o['name'], seconds=o['result']['seconds'], solver=o['result']['solver'])
                     for o in sorted(allobs, key=lambda o: -o['result']['seconds'])[:5]],
            obligations_by_kind=count_by(allobs, 'kind'),
            assumption_scan=assumption_scan(REG, quals),
            vacuity_covers=dict(paths=len(covers), not_refuted=covers_ok,
                                rule="per path, the hypotheses with goal False are given to z3 (3 s); a function all of whose paths are refuted is a checker error; refuted single paths are branches that the quantifier-free pruning could not exclude"),
            violated=[n for n, _ in new_violations],
            known_findings_printed=known_printed,
            undecided=[o['name'] for o in undecided] + undecided_fn,
            checker_errors=errors,
            samples=samples,
            repo_head=Source().head(),
            not_covered=PROPERTY_NOTES.get(prop, {}).get('not_covered', []),
            bounded=PROPERTY_NOTES.get(prop, {}).get('bounded', []),
            bounded_fallback=bounded_note,
            thorough_bounded=thorough_bounded,
        ),
        assumptions=TRUSTED_BASE + PROPERTY_NOTES.get(prop, {}).get('assumptions', []),
        wall_s=round(time.time() - t_start, 2),
        violations=len(new_violations),
    )
    os.makedirs(os.path.join(VERIF, 'evidence'), exist_ok=True)
    with open(os.path.join(VERIF, 'evidence', f'{prop}.json'), 'w') as f:
        json.dump(ev, f, indent=1, default=str)
    print(f"{prop}: {nobl} obligations, {discharged} discharged, {len(new_violations)} violated, "
          f"{len(known_printed)} known findings, {len(undecided) + len(undecided_fn)} undecided, {len(errors)} checker errors, "
          f"{ev['wall_s']} s", file=out)
    if errors:
        return 3
    if new_violations:
        return 1
    if undecided or undecided_fn:
        return 2
    return 0


def assumption_scan(REG, quals):
    """mechanical scan of the sidecars before each report: assumed contracts and `assume:` clauses in force for these functions"""
    import glob
    assumed = sorted(f"{q}: {c.note or 'assumed contract'}" for q, c in REG.contracts.items() if c.assumed)
    clauses = set()
    for f in glob.glob(os.path.join(VERIF, 'contracts', '*.py')):
        for m in re.finditer(r"'(assume:[^']+)'", open(f).read()):
            clauses.add(f"{os.path.basename(f)}: {m.group(1)}")
    inline = sorted(q for q, c in REG.contracts.items() if c.inline) + sorted(getattr(REG, 'inline_ok', []))
    return dict(assumed_contracts=assumed, assume_clauses=sorted(clauses), executed_inline_at_call_sites=inline)


def count_by(obs, key):
    d = {}
    for o in obs:
        d[o[key]] = d.get(o[key], 0) + 1
    return d


def load_known():
    p = os.path.join(VERIF, 'known_findings.json')
    if not os.path.exists(p):
        return []
    return json.load(open(p)).get('findings', [])


def write_replay(prop, name, obs):
    safe = re.sub(r'[^A-Za-z0-9_.-]+', '_', name)[:150]
    path = os.path.join(VERIF, 'replays', prop, safe + '.json')
    src = Source()
    fn = obs[0]['function']
    fi = src.funcs.get(fn)
    d = dict(property=prop, obligation=name, function=fn,
             source=dict(file=fi.file if fi else None, line=fi.lineno if fi else None, blob=src.blob.get(fi.file) if fi else None,
                         text=fi.src if fi else None),
             counterexamples=[dict(path=o['path'], where=o['where'], solver=o['result']['solver'], model=o['result']['model'],
                                   solver_log=o['result']['log']) for o in obs[:5]],
             replayed=False)
    with open(path, 'w') as f:
        json.dump(d, f, indent=1, default=str)
    return path


def try_replay(path):
    """run the native replay (under /venv/bin/python) if a replay builder exists for the function"""
    rp = os.path.join(VERIF, 'replay', 'run.py')
    if not os.path.exists(rp):
        return False, 'no replayer'
    try:
        r = subprocess.run(['/venv/bin/python', rp, path], capture_output=True, text=True, timeout=600,
                           env=dict(os.environ, PYTHONPATH=os.environ.get('TOPSIM_REPO', '/repo'), TQDM_DISABLE='1'))
        return r.returncode == 10, r.stdout[-500:]
    except Exception as e:
        return False, str(e)


def main(argv):
    import argparse
    ap = argparse.ArgumentParser()
    ap.add_argument('prop')
    ap.add_argument('--tier', default=os.environ.get('VERIF_TIER', 'quick'))
    a = ap.parse_args(argv)
    seed = int(os.environ.get('VERIF_SEED', '0') or 0)
    try:
        rc = run_property(a.prop, a.tier, seed)
    except Exception:
        traceback.print_exc()
        rc = 3
    return rc


if __name__ == '__main__':
    sys.exit(main(sys.argv[1:]))
