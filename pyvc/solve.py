"""Discharging obligations: SMT-LIB text per VC, in-process z3 first, CLI portfolio (cvc5, z3 4.8) on unknown."""
import os
import subprocess
import tempfile
import time
import multiprocessing as mp
import z3

Z3_MS = int(os.environ.get('PYVC_Z3_MS', '20000'))
CLI_S = int(os.environ.get('PYVC_CLI_S', '30'))
SCRATCH = os.environ.get('VERIF_SCRATCH', '/var/tmp')


def to_smt2(ob, ground=False):
    """ground=True: only the quantifier-free hypotheses (a weaker query whose models are *candidates* that must be
    confirmed by native replay before they count)"""
    from .core import has_quant
    s = z3.Solver()
    for h in ob.hyps:
        if ground and has_quant(h):
            continue
        s.add(h)
    s.add(z3.Not(ob.goal))
    for label, term in getattr(ob, 'probes', {}).items():
        try:
            s.add(z3.Const('probe!' + label, term.sort()) == term)
        except Exception:
            pass
    return s.to_smt2()


def model_dict(m):
    out = {}
    for d in m.decls():
        if d.arity() == 0:
            try:
                out[d.name()] = str(m[d])
            except Exception:
                pass
    return out


def run_cli(cmd, text, timeout):
    fd, p = tempfile.mkstemp(suffix='.smt2', dir=SCRATCH)
    try:
        with os.fdopen(fd, 'w') as f:
            f.write(text)
        t0 = time.time()
        try:
            r = subprocess.run(cmd + [p], capture_output=True, text=True, timeout=timeout)
            out = (r.stdout or '').strip().splitlines()
            ans = out[0].strip() if out else 'unknown'
        except subprocess.TimeoutExpired:
            ans = 'timeout'
        return ans, time.time() - t0
    finally:
        try:
            os.unlink(p)
        except OSError:
            pass


def solve_one(args):
    idx, text, tier = args[:3]
    ground = args[3] if len(args) > 3 else None
    t0 = time.time()
    log = []
    if tier == 'cover':
        try:
            s = z3.Solver()
            s.set('timeout', 3000)
            s.from_string(text)
            r = s.check()
            return idx, str(r), 'z3-5.1(api)', time.time() - t0, None, log
        except Exception as e:
            return idx, 'unknown', None, time.time() - t0, None, [('z3', 'error:' + str(e)[:100], 0)]
    # 1. in-process z3 (z3-solver 5.1)
    try:
        s = z3.Solver()
        s.set('timeout', Z3_MS if tier == 'quick' else Z3_MS * 3)
        s.from_string(text)
        r = s.check()
        dt = time.time() - t0
        log.append(('z3-5.1(api)', str(r), round(dt, 3)))
        if r == z3.unsat:
            return idx, 'unsat', 'z3-5.1(api)', dt, None, log
        if r == z3.sat:
            return idx, 'sat', 'z3-5.1(api)', dt, model_dict(s.model()), log
    except Exception as e:       # parse problems etc: fall through to CLIs
        log.append(('z3-5.1(api)', 'error:' + str(e)[:200], 0))
    # 2. CLI portfolio
    text2 = text if '(check-sat)' in text else text + '\n(check-sat)\n'
    for name, cmd in (('cvc5-1.0.3', ['/usr/bin/cvc5', '--tlimit=%d' % (CLI_S * 1000), '--nl-ext-tplanes', '--full-saturate-quant']),
                      ('z3-4.8.12', ['/usr/bin/z3', '-T:%d' % CLI_S])):
        t1 = time.time()
        ans, dt = run_cli(cmd, text2, CLI_S + 5)
        log.append((name, ans, round(dt, 3)))
        if ans == 'unsat':
            return idx, 'unsat', name, time.time() - t0, None, log
        if ans == 'sat':
            return idx, 'sat', name, time.time() - t0, None, log
    # no verdict: look for a candidate counterexample of the quantifier-free weakening (counts only if replay confirms it)
    if ground:
        try:
            s = z3.Solver()
            s.set('timeout', Z3_MS)
            s.from_string(ground)
            r = s.check()
            log.append(('z3-5.1(api) ground-weakening', str(r), round(time.time() - t0, 3)))
            if r == z3.sat:
                return idx, 'candidate', 'z3-5.1(api) ground-weakening', time.time() - t0, model_dict(s.model()), log
        except Exception as e:
            log.append(('ground', 'error:' + str(e)[:100], 0))
    return idx, 'unknown', None, time.time() - t0, None, log


def discharge(obligations, tier='quick', procs=None):
    """fills ob.result = dict(verdict, solver, seconds, model, log)"""
    procs = procs or int(os.environ.get('PYVC_PROCS', '14'))
    jobs = []
    for i, ob in enumerate(obligations):
        g = z3.simplify(ob.goal)
        if z3.is_true(g):
            ob.result = dict(verdict='unsat', solver='trivial', seconds=0.0, model=None, log=[])
            continue
        ob.smt2 = to_smt2(ob)
        jobs.append((i, ob.smt2, tier))
    if not jobs:
        return
    if len(jobs) < 4 or procs <= 1:
        results = [solve_one(j) for j in jobs]
    else:
        ctx = mp.get_context('fork')
        with ctx.Pool(min(procs, len(jobs))) as pool:
            results = pool.map(solve_one, jobs, chunksize=1)
    for idx, verdict, solver, dt, model, log in results:
        obligations[idx].result = dict(verdict=verdict, solver=solver, seconds=round(dt, 3), model=model, log=log)
