"""Discharging obligations: SMT-LIB text per VC, in-process z3 first, CLI portfolio (cvc5, z3 4.8) on unknown."""
import os
import subprocess
import tempfile
import time
import multiprocessing as mp
import z3

Z3_MS = int(os.environ.get('PYVC_Z3_MS', '20000'))
CLI_S = int(os.environ.get('PYVC_CLI_S', '30'))
SCRATCH = os.environ.get('VERIF_SCRATCH', '/var/tmp')


def index_terms(fs, limit=14):
    """ground Int terms used as array indices in quantifier-free formulas (instantiation candidates)"""
    out, seen = [], set()
    todo = list(fs)
    visited = set()
    while todo:
        x = todo.pop()
        i = x.get_id()
        if i in visited:
            continue
        visited.add(i)
        if z3.is_quantifier(x):
            continue
        if z3.is_app(x):
            if any(z3.is_var(ch) for ch in x.children()):
                pass
            if x.decl().kind() in (z3.Z3_OP_SELECT, z3.Z3_OP_STORE) and x.num_args() >= 2:
                t = x.arg(1)
                if z3.is_int(t) and t.get_id() not in seen and not z3.is_int_value(t):
                    seen.add(t.get_id())
                    out.append(t)
            todo.extend(x.children())
    out.sort(key=lambda t: len(t.sexpr()))
    return out[:limit]


def instantiate(h, terms, cap=160, keep_quant=False):
    """ground instances of a top-level ForAll over Int variables"""
    if not (z3.is_quantifier(h) and h.is_forall()):
        return []
    n = h.num_vars()
    if n > 3 or any(h.var_sort(i) != z3.IntSort() for i in range(n)):
        return []
    import itertools
    out = []
    for tup in itertools.islice(itertools.product(terms, repeat=n), cap):
        # de Bruijn: variable 0 is the innermost = last declared
        inst = z3.substitute_vars(h.body(), *reversed(tup))
        from .core import has_quant
        if keep_quant or not has_quant(inst):
            out.append(inst)
    return out


def ground_apps(fs, limit=600):
    """ground applications of uninterpreted functions (arity > 0) occurring outside quantifier bodies"""
    out, seen = [], set()
    todo = list(fs)
    while todo and len(out) < limit:
        x = todo.pop()
        i = x.get_id()
        if i in seen:
            continue
        seen.add(i)
        if z3.is_quantifier(x):
            continue
        if z3.is_app(x):
            if x.decl().kind() == z3.Z3_OP_UNINTERPRETED and x.num_args() > 0 and not z3.is_array(x):
                out.append(x)
            todo.extend(x.children())
    return out


def array_consts(fs):
    out, visited = {}, set()
    todo = list(fs)
    while todo:
        x = todo.pop()
        i = x.get_id()
        if i in visited:
            continue
        visited.add(i)
        if z3.is_quantifier(x):
            todo.append(x.body())
            continue
        if z3.is_const(x) and x.decl().kind() == z3.Z3_OP_UNINTERPRETED and z3.is_array(x):
            out[x.decl().name()] = x
        if z3.is_app(x):
            todo.extend(x.children())
    return list(out.values())


_fs = [0]


def finite_support(a, terms, depth=0):
    """a == Store(...Store(K(default), t1, v1)..., tk, vk) with fresh v_i: the array is `default` outside the scope"""
    srt = a.sort()
    rng = srt.range()
    if srt.domain() != z3.IntSort():
        return None
    heap = a.decl().name().startswith(('H0!', 'H!')) if z3.is_const(a) else False
    if heap and not isinstance(rng, z3.ArraySortRef):
        # entity fields: an arbitrary (but uniform) default outside the scope
        _fs[0] += 1
        base = z3.K(z3.IntSort(), z3.Const(f"fsd!{_fs[0]}", rng))
    elif rng == z3.IntSort():
        base = z3.K(z3.IntSort(), z3.IntVal(0))
    elif rng == z3.BoolSort():
        base = z3.K(z3.IntSort(), z3.BoolVal(False))
    elif isinstance(rng, z3.ArraySortRef) and rng.domain() == z3.IntSort() and rng.range() == z3.IntSort() and depth == 0:
        base = z3.K(z3.IntSort(), z3.K(z3.IntSort(), z3.IntVal(0)))
    else:
        return None
    cons = []
    chain = base
    for t in terms:
        _fs[0] += 1
        v = z3.Const(f"fs!{_fs[0]}", rng)
        if isinstance(rng, z3.ArraySortRef):
            c2 = finite_support(v, terms, depth + 1)
            if c2:
                cons.extend(c2)
        chain = z3.Store(chain, t, v)
    cons.append(a == chain)
    return cons


_sk = [0]


def ground_formula(f, pos, terms, cap=120, depth=0):
    """quantifier-free weakening/strengthening of f over the instantiation terms: universal quantifiers in positive
    position become finite conjunctions, existential ones are skolemised (and dually in negative position).
    Used only to find candidate models (validated afterwards), so approximation is harmless."""
    from .core import has_quant
    import itertools
    if not has_quant(f):
        return f
    if z3.is_quantifier(f) and not f.is_lambda():
        n = f.num_vars()
        universal = f.is_forall()
        if universal == pos:
            # conjunction (pos forall) / disjunction (neg exists) over instances
            if any(f.var_sort(i) != z3.IntSort() for i in range(n)) or n > 3 or depth > 2:
                return z3.BoolVal(True) if pos else z3.BoolVal(False)
            parts = []
            for tup in itertools.islice(itertools.product(terms, repeat=n), cap):
                parts.append(ground_formula(z3.substitute_vars(f.body(), *reversed(tup)), pos, terms, cap, depth + 1))
            return z3.And(parts) if universal else z3.Or(parts)
        # skolemise
        cs = []
        for i in range(n):
            _sk[0] += 1
            cs.append(z3.Const(f"gsk!{_sk[0]}", f.var_sort(i)))
        return ground_formula(z3.substitute_vars(f.body(), *reversed(cs)), pos, terms, cap, depth + 1)
    if z3.is_app(f):
        k = f.decl().kind()
        ch = f.children()
        if k == z3.Z3_OP_AND:
            return z3.And([ground_formula(c, pos, terms, cap, depth) for c in ch])
        if k == z3.Z3_OP_OR:
            return z3.Or([ground_formula(c, pos, terms, cap, depth) for c in ch])
        if k == z3.Z3_OP_NOT:
            return z3.Not(ground_formula(ch[0], not pos, terms, cap, depth))
        if k == z3.Z3_OP_IMPLIES:
            return z3.Or(z3.Not(ground_formula(ch[0], not pos, terms, cap, depth)), ground_formula(ch[1], pos, terms, cap, depth))
        if k == z3.Z3_OP_ITE and z3.is_bool(f):
            c0 = ch[0]
            if not has_quant(c0):
                return z3.If(c0, ground_formula(ch[1], pos, terms, cap, depth), ground_formula(ch[2], pos, terms, cap, depth))
        if k in (z3.Z3_OP_EQ, z3.Z3_OP_IFF) and z3.is_bool(ch[0]):
            a, b = ch
            return z3.And(z3.Or(z3.Not(ground_formula(a, not pos, terms, cap, depth)), ground_formula(b, pos, terms, cap, depth)),
                          z3.Or(z3.Not(ground_formula(b, not pos, terms, cap, depth)), ground_formula(a, pos, terms, cap, depth)))
    # a quantifier buried in a term we do not take apart: drop (pos) / refuse (neg)
    return z3.BoolVal(True) if pos else z3.BoolVal(False)


def symbols_of(f, cache={}):
    k = f.get_id()
    if k in cache:
        return cache[k][1]
    out, todo, seen = set(), [f], set()
    while todo:
        x = todo.pop()
        if x.get_id() in seen:
            continue
        seen.add(x.get_id())
        if z3.is_quantifier(x):
            todo.append(x.body())
        elif z3.is_app(x):
            if x.decl().kind() == z3.Z3_OP_UNINTERPRETED:
                out.add(x.decl().name())
            todo.extend(x.children())
    cache[k] = (f, out)      # keeps the term alive: z3 recycles the ids of collected ASTs
    return out


def cone_of_influence(assertions, levels=2):
    """the assertions connected to the negated goal (the last assertion that is not a probe definition) through shared symbols"""
    goal_idx = None
    for i in range(len(assertions) - 1, -1, -1):
        if not any(n.startswith('probe!') for n in symbols_of(assertions[i])):
            goal_idx = i
            break
    if goal_idx is None:
        return list(assertions)
    syms = set(symbols_of(assertions[goal_idx]))
    chosen = {goal_idx}
    for _ in range(levels):
        added = False
        for i, a in enumerate(assertions):
            if i in chosen:
                continue
            sa = symbols_of(a)
            if any(n.startswith('probe!') for n in sa):
                continue
            if sa & syms:
                chosen.add(i)
                added = True
        for i in chosen:
            syms |= symbols_of(assertions[i])
        if not added:
            break
    return [assertions[i] for i in sorted(chosen)]


def ground_solver(assertions, timeout_ms, nscope=8, nterms=14, cap=120):
    """the finite-scope weakening of a VC given as a list of assertions (hypotheses and the negated goal)"""
    from .core import has_quant
    s = z3.Solver()
    s.set('timeout', timeout_ms)
    qf = [h for h in assertions if not has_quant(h)]
    terms = index_terms(qf, limit=nterms)
    scope = terms[:nscope]
    outside = z3.Int('fs!outside')
    for t in scope:
        s.add(outside != t)
    terms = [outside] + terms
    arrs = array_consts(list(assertions))
    for a in arrs:
        if a.decl().name() == 'alloc0':
            continue
        for cst in finite_support(a, scope) or []:
            s.add(cst)
    # realisable lists only: the length of a list is the sum of its multiplicities (over the scope, which holds its support)
    lens = {}
    todo, seen = list(assertions), set()
    while todo:
        x = todo.pop()
        if x.get_id() in seen:
            continue
        seen.add(x.get_id())
        if z3.is_quantifier(x):
            todo.append(x.body())
        elif z3.is_app(x):
            if z3.is_const(x) and x.decl().kind() == z3.Z3_OP_UNINTERPRETED and z3.is_int(x) and '.n!' in x.decl().name():
                lens[tuple(x.decl().name().rsplit('.n!', 1))] = x
            todo.extend(x.children())
    for a in arrs:
        nm = a.decl().name()
        if '.cnt!' in nm and a.sort().range() == z3.IntSort():
            # a list's multiplicity array X.cnt!k and its length X.n!(k+1) are created together (consecutive fresh names)
            pre, idx = nm.rsplit('.cnt!', 1)
            n = lens.get((pre, str(int(idx) + 1))) if idx.isdigit() else None
            if n is not None:
                total = z3.IntVal(0)
                for i, t in enumerate(scope):
                    first = z3.And([t != u for u in scope[:i]]) if i else z3.BoolVal(True)
                    total = total + z3.If(first, z3.Select(a, t), 0)
                s.add(n == total)
    for h in assertions:
        if has_quant(h):
            try:
                s.add(ground_formula(h, True, terms, cap=cap))
            except Exception:
                pass
        else:
            s.add(h)
    return s


def lazy_ground(assertions, timeout_ms, nscope, nterms, cap, log, t0, max_iter=80, batch=40):
    """model search for the finite-scope weakening by lazy refinement: solve the ground assertions that share symbols with the
    negated goal, evaluate ALL ground assertions under the model found, add the violated ones, repeat.  Each query is small; the
    result (if any) satisfies every ground assertion and is then validated against the full VC like every other candidate."""
    full = ground_solver(assertions, timeout_ms, nscope, nterms, cap)
    G = list(full.assertions())
    if not G:
        return None
    goal_syms = symbols_of(G[-1]) if False else None
    # the negated goal is the last of the original assertions; find its ground counterpart(s): QF assertions are added verbatim
    neg_goal = assertions[-1]
    seeds = set()
    try:
        seeds = set(symbols_of(neg_goal))
    except Exception:
        pass
    active, rest = [], []
    for g in G:
        try:
            sy = symbols_of(g)
        except Exception:
            sy = set()
        (active if (seeds & set(sy)) and len(str(g.sexpr())) < 20000 else rest).append(g)
    s = z3.Solver()
    s.set('timeout', min(timeout_ms, 15000))
    for g in active:
        s.add(g)
    for it in range(max_iter):
        r = s.check()
        if r != z3.sat:
            log.append((f'z3-5.1(api) lazy-ground scope={nscope} iteration {it} ({len(G) - len(rest)}/{len(G)} assertions)', str(r), round(time.time() - t0, 3)))
            return None
        m = s.model()
        viol = []
        for g in rest:
            try:
                v = m.eval(g, model_completion=True)
                if not z3.is_true(v):
                    viol.append(g)
            except Exception:
                viol.append(g)
        if not viol:
            log.append((f'z3-5.1(api) lazy-ground scope={nscope}: model after {it + 1} iterations ({len(G) - len(rest)}/{len(G)} assertions solved, all satisfied)',
                        'sat', round(time.time() - t0, 3)))
            return m
        viol.sort(key=lambda g: g.get_id())
        take = viol[:batch]
        ids = set(g.get_id() for g in take)
        rest = [g for g in rest if g.get_id() not in ids]
        for g in take:
            s.add(g)
    log.append((f'z3-5.1(api) lazy-ground scope={nscope}', 'gave up', round(time.time() - t0, 3)))
    return None


def to_smt2(ob, ground=False):
    """ground=True: the quantifier-free hypotheses plus ground instances of the universal ones at the index terms of
    the VC.  A model of this weaker query is only a *candidate*: it counts when it validates against the full VC
    (all constants fixed to the model's values) or when the native replay reproduces it."""
    from .core import has_quant
    s = z3.Solver()
    qf = [h for h in ob.hyps if not has_quant(h)]
    if ground:
        terms = index_terms(qf + [ob.goal])
        scope = terms[:8]
        # one representative of everything outside the scope: the uniform defaults must satisfy the universal facts too
        outside = z3.Int('fs!outside')
        for t in scope:
            s.add(outside != t)
        terms = [outside] + terms
        for a in array_consts(list(ob.hyps) + [ob.goal]):
            if a.decl().name() == 'alloc0':
                continue
            for cst in finite_support(a, scope) or []:
                s.add(cst)
        snf = z3.Tactic('snf')
        for h in ob.hyps:
            if has_quant(h):
                for inst in instantiate(h, terms, keep_quant=True):
                    if has_quant(inst):
                        try:
                            for sub in snf(inst)[0]:
                                if not has_quant(sub):
                                    s.add(sub)
                        except Exception:
                            pass
                    else:
                        s.add(inst)
            else:
                s.add(h)
    else:
        for h in ob.hyps:
            s.add(h)
    s.add(z3.Not(ob.goal))
    for label, term in getattr(ob, 'probes', {}).items():
        try:
            s.add(z3.Const('probe!' + label, term.sort()) == term)
        except Exception:
            pass
    return s.to_smt2()


def model_dict(m):
    """scalar constants as strings; array-valued probes as {'at': {index: value}} over the integers the model mentions"""
    out = {}
    ints = set()
    arrays = []
    for d in m.decls():
        if d.arity() == 0:
            try:
                v = m[d]
                c = d()
                if z3.is_array(c):
                    if d.name().startswith('probe!'):
                        arrays.append((d.name(), c))
                    continue
                out[d.name()] = str(v)
                if z3.is_int_value(v):
                    ints.add(v.as_long())
            except Exception:
                pass
    def entries(e):
        """(index -> value expr) of a model array value built from store / const-array / as-array"""
        out_, e0 = {}, e
        for _ in range(400):
            if z3.is_store(e):
                i, v = e.arg(1), e.arg(2)
                if z3.is_int_value(i) and i.as_long() not in out_:
                    out_[i.as_long()] = v
                e = e.arg(0)
            else:
                break
        if z3.is_as_array(e):
            fi = m.get_interp(z3.get_as_array_func(e))
            if fi is not None:
                for k in range(fi.num_entries()):
                    en = fi.entry(k)
                    i = en.arg_value(0)
                    if z3.is_int_value(i) and i.as_long() not in out_:
                        out_[i.as_long()] = en.value()
        return out_

    cand = sorted(i for i in ints if -5 <= i <= 10 ** 7)[:80]
    for name, c in arrays:
        try:
            srt = c.sort()
            if srt.domain() != z3.IntSort():
                continue
            vals = {}
            try:
                top = entries(m[c.decl()])
                if isinstance(srt.range(), z3.ArraySortRef):
                    for o, inner in top.items():
                        ie = {str(i): str(v) for i, v in entries(inner).items() if str(v) not in ('0', 'False')}
                        if ie:
                            vals[str(o)] = ie
                else:
                    vals = {str(i): str(v) for i, v in top.items() if str(v) not in ('0', 'False')}
                if vals:
                    out[name] = {'at': vals}
                    continue
            except Exception:
                vals = {}
            if isinstance(srt.range(), z3.ArraySortRef):
                for o in cand:
                    inner = {}
                    for i in cand:
                        v = m.eval(z3.Select(z3.Select(c, z3.IntVal(o)), z3.IntVal(i)), model_completion=True)
                        if str(v) not in ('0', 'False'):
                            inner[str(i)] = str(v)
                    if inner:
                        vals[str(o)] = inner
            else:
                for i in cand:
                    v = m.eval(z3.Select(c, z3.IntVal(i)), model_completion=True)
                    if str(v) not in ('0', 'False'):
                        vals[str(i)] = str(v)
            out[name] = {'at': vals}
        except Exception:
            pass
    return out


def run_cli(cmd, text, timeout):
    fd, p = tempfile.mkstemp(suffix='.smt2', dir=SCRATCH)
    try:
        with os.fdopen(fd, 'w') as f:
            f.write(text)
        t0 = time.time()
        try:
            r = subprocess.run(cmd + [p], capture_output=True, text=True, timeout=timeout)
            out = (r.stdout or '').strip().splitlines()
            ans = out[0].strip() if out else 'unknown'
        except subprocess.TimeoutExpired:
            ans = 'timeout'
        return ans, time.time() - t0
    finally:
        try:
            os.unlink(p)
        except OSError:
            pass


def solve_one(args):
    idx, text, tier = args[:3]
    ground = args[3] if len(args) > 3 else None
    t0 = time.time()
    log = []
    if tier == 'cover':
        try:
            s = z3.Solver()
            s.set('timeout', 3000)
            s.from_string(text)
            r = s.check()
            return idx, str(r), 'z3-5.1(api)', time.time() - t0, None, log
        except Exception as e:
            return idx, 'unknown', None, time.time() - t0, None, [('z3', 'error:' + str(e)[:100], 0)]
    # 1. in-process z3 (z3-solver 5.1)
    try:
        s = z3.Solver()
        s.set('timeout', Z3_MS if tier == 'quick' else Z3_MS * 3)
        s.from_string(text)
        r = s.check()
        dt = time.time() - t0
        log.append(('z3-5.1(api)', str(r), round(dt, 3)))
        if r == z3.unsat:
            if tier == 'thorough':
                # second opinion from an independent build: a 'sat' here is a checker error
                text2 = text if '(check-sat)' in text else text + '\n(check-sat)\n'
                ans, dt2 = run_cli(['/usr/bin/z3', '-T:%d' % CLI_S], text2, CLI_S + 5)
                log.append(('z3-4.8.12 (cross-check)', ans, round(dt2, 3)))
                if ans == 'sat':
                    return idx, 'disagree', 'z3-5.1(api) unsat vs z3-4.8.12 sat', time.time() - t0, None, log
            return idx, 'unsat', 'z3-5.1(api)', dt, None, log
        if r == z3.sat:
            return idx, 'sat', 'z3-5.1(api)', dt, model_dict(s.model()), log
    except Exception as e:       # parse problems etc: fall through to CLIs
        log.append(('z3-5.1(api)', 'error:' + str(e)[:200], 0))
    # 2. CLI portfolio
    text2 = text if '(check-sat)' in text else text + '\n(check-sat)\n'
    for name, cmd in (('cvc5-1.0.3', ['/usr/bin/cvc5', '--tlimit=%d' % (CLI_S * 1000), '--nl-ext-tplanes', '--full-saturate-quant']),
                      ('z3-4.8.12', ['/usr/bin/z3', '-T:%d' % CLI_S])):
        t1 = time.time()
        ans, dt = run_cli(cmd, text2, CLI_S + 5)
        log.append((name, ans, round(dt, 3)))
        if ans == 'unsat':
            return idx, 'unsat', name, time.time() - t0, None, log
        if ans == 'sat':
            return idx, 'sat', name, time.time() - t0, None, log
    if ground == 'reach':
        # the goal is the constant False (a construct that must not occur, reached by the symbolic executor on this path):
        # the violation is the reached program point; the solvers could not show the path infeasible
        return idx, 'sat', 'reached-by-symbolic-execution (path not refuted)', time.time() - t0, None, log
    # no verdict: look for a candidate counterexample of the quantifier-free weakening (counts only if replay confirms it)
    if ground:
        try:
            s0 = z3.Solver()
            s0.from_string(text)
            allas = list(s0.assertions())
            stages = [(1, 4, 5, 30), (2, 4, 5, 30), (None, 4, 5, 30), (None, 8, 14, 120)]
            s = None
            for (lv, ns, nt, cp) in stages:
                sub = allas if lv is None else cone_of_influence(allas, lv)
                s = ground_solver(sub, Z3_MS, ns, nt, cp)
                r0 = s.check()
                log.append((f'z3-5.1(api) ground-instances cone={lv} scope={ns}', str(r0), round(time.time() - t0, 3)))
                if r0 != z3.sat:
                    continue
                if lv is not None:
                    # extend the partial candidate (cone of the goal) to all hypotheses: same scope, its constants fixed
                    m1 = s.model()
                    s = ground_solver(allas, Z3_MS, ns, nt, cp)
                    for d in m1.decls():
                        if d.arity() == 0 and not d.name().startswith(('fs!', 'fsd!', 'gsk!')):
                            try:
                                s.add(d() == m1[d])
                            except Exception:
                                pass
                    r1 = s.check()
                    log.append((f'z3-5.1(api) extend-candidate cone={lv}', str(r1), round(time.time() - t0, 3)))
                    if r1 != z3.sat:
                        continue
                break
            lazy_m = None
            if s is None or s.check() != z3.sat:
                for (ns, nt, cp) in ((4, 5, 30), (8, 14, 120)):
                    lazy_m = lazy_ground(allas, Z3_MS, ns, nt, cp, log, t0)
                    if lazy_m is not None:
                        break
            for attempt in range(3):
                if lazy_m is not None:
                    if attempt > 0:
                        break
                    m = lazy_m
                else:
                    r = s.check()
                    log.append(('z3-5.1(api) ground-instances', str(r), round(time.time() - t0, 3)))
                    if r != z3.sat:
                        break
                    m = s.model()
                # validate the candidate against the full VC: fix every constant to its model value
                s2 = z3.Solver()
                s2.set('timeout', Z3_MS)
                s2.from_string(text)
                block = []
                for d in m.decls():
                    if d.arity() == 0:
                        try:
                            c = d()
                            s2.add(c == m[d])
                            if not z3.is_array(c):
                                block.append(c != m[d])
                        except Exception:
                            pass
                # ... and every ground function application to the value the candidate gives it
                for app in ground_apps(list(s0.assertions())):
                    try:
                        s2.add(app == m.eval(app, model_completion=True))
                    except Exception:
                        pass
                r2 = s2.check()
                log.append(('z3-5.1(api) validate-candidate', str(r2), round(time.time() - t0, 3)))
                if r2 == z3.unknown:
                    # second attempt: also fix the candidate's (finite) interpretation of every uninterpreted function, so that
                    # the quantified hypotheses become closed formulas the solver only has to evaluate
                    try:
                        for d in m.decls():
                            if d.arity() == 0 or d.name().startswith(('fs!', 'fsd!', 'gsk!')):
                                continue
                            fi_ = m[d]
                            if not isinstance(fi_, z3.FuncInterp):
                                continue
                            xs = [z3.Const(f'vx!{d.name()}!{i}', d.domain(i)) for i in range(d.arity())]
                            body = fi_.else_value()
                            if body is None:
                                continue
                            for k in range(fi_.num_entries() - 1, -1, -1):
                                en = fi_.entry(k)
                                cond = z3.And([xs[i] == en.arg_value(i) for i in range(d.arity())])
                                body = z3.If(cond, en.value(), body)
                            s2.add(z3.ForAll(xs, d(*xs) == body))
                        r2 = s2.check()
                        log.append(('z3-5.1(api) validate-candidate (function interpretations fixed)', str(r2), round(time.time() - t0, 3)))
                    except Exception as ex:
                        log.append(('validate-candidate (functions)', 'error:' + str(ex)[:120], 0))
                if r2 == z3.sat:
                    return idx, 'sat', 'z3-5.1(api) ground-instances+validation', time.time() - t0, model_dict(s2.model()), log
                cand = model_dict(m)
                if attempt == 2 or not block or lazy_m is not None:
                    return idx, 'candidate', 'z3-5.1(api) ground-instances', time.time() - t0, cand, log
                s.add(z3.Or(block))
        except Exception as e:
            log.append(('ground', 'error:' + str(e)[:200], 0))
    return idx, 'unknown', None, time.time() - t0, None, log


def discharge(obligations, tier='quick', procs=None):
    """fills ob.result = dict(verdict, solver, seconds, model, log)"""
    procs = procs or int(os.environ.get('PYVC_PROCS', '14'))
    jobs = []
    for i, ob in enumerate(obligations):
        g = z3.simplify(ob.goal)
        if z3.is_true(g):
            ob.result = dict(verdict='unsat', solver='trivial', seconds=0.0, model=None, log=[])
            continue
        ob.smt2 = to_smt2(ob)
        jobs.append((i, ob.smt2, tier))
    if not jobs:
        return
    if len(jobs) < 4 or procs <= 1:
        results = [solve_one(j) for j in jobs]
    else:
        ctx = mp.get_context('fork')
        with ctx.Pool(min(procs, len(jobs))) as pool:
            results = pool.map(solve_one, jobs, chunksize=1)
    for idx, verdict, solver, dt, model, log in results:
        obligations[idx].result = dict(verdict=verdict, solver=solver, seconds=round(dt, 3), model=model, log=log)
