"""frame comparison of two symbolic states"""
import z3
from .core import *  # noqa
from .state import *  # noqa
from .interp import ENV


def walk_leaves(names):
    """canonical path -> leaf for everything reachable from the named values"""
    out = {}
    seen = {}

    def rec(v, path):
        if isinstance(v, (ObjV, Record, PyList, TupleV)):
            if id(v) in seen:
                return
            seen[id(v)] = path
            if isinstance(v, ObjV):
                for k, x in v.fields.items():
                    rec(x, f"{path}.{k}")
            elif isinstance(v, Record):
                for k, x in v.items.items():
                    rec(x, f"{path}.{k}")
            else:
                for i, x in enumerate(v.items):
                    rec(x, f"{path}.{i}")
            return
        if isinstance(v, (ListObj, DictObj)):
            if id(v) in seen:
                return
            seen[id(v)] = path
            out[path] = v
            return
        out[path] = v

    for n, v in names.items():
        rec(v, n)
    return out, seen


def leaf_equal(a, b):
    """returns True (identical), False (surely different) or a z3 formula"""
    if isinstance(a, ListObj) and isinstance(b, ListObj):
        if a.cnt.eq(b.cnt) and a.n.eq(b.n):
            return True
        return z3.And(a.cnt == b.cnt, a.n == b.n)
    if isinstance(a, DictObj) and isinstance(b, DictObj):
        fs = []
        for f in ('keys', 'nk', 'vals', 'vcnt', 'vn'):
            x, y = getattr(a, f), getattr(b, f)
            if x is None and y is None:
                continue
            if x is None or y is None:
                return False
            if not x.eq(y):
                fs.append(x == y)
        return True if not fs else z3.And(fs)
    if isinstance(a, Sym) and isinstance(b, Sym):
        if a.t.eq(b.t):
            return True
        if a.t.sort() != b.t.sort():
            return to_real(a.t) == to_real(b.t) if a.kind == 'num' and b.kind == 'num' else False
        return a.t == b.t
    if isinstance(a, Sym) or isinstance(b, Sym):
        s, o = (a, b) if isinstance(a, Sym) else (b, a)
        if isinstance(o, (bool, int, float)) and s.kind in ('num', 'bool'):
            return (to_real(s.t) == to_real(o)) if s.kind == 'num' else (s.t == z3.BoolVal(bool(o)))
        if o is None and s.kind in ('ref', 'any'):
            return s.t == 0
        if isinstance(o, EnumConst) and s.kind == 'enum':
            return s.t == o.code
        if isinstance(o, str) and s.kind == 'str':
            return s.t == STRINGS.intern(o)
        return False
    if type(a) is not type(b):
        if a is None or b is None:
            return False
        return False
    if isinstance(a, (Opaque,)) or a is ENV:
        return True
    if isinstance(a, (GenV, ProcV, TimeoutV, BoundMethod, ClassV)):
        return True
    return True if a == b else False


