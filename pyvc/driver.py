"""pyvc driver: generates the obligations of one function (or generator segment) against its contract."""
import ast
import z3
from .core import *  # noqa
from .state import *  # noqa
from .calls import Engine
from .interp import ENV
from .spec import V, SV, Ctx

MAX_PATHS = 400


class ContractMismatch(Exception):
    pass


class FunctionReport:
    def __init__(self, qual):
        self.qual = qual
        self.obligations = []
        self.paths = 0
        self.outcomes = {}
        self.status = 'ok'          # ok | out-of-subset | contract-mismatch
        self.reason = None
        self.erased = []
        self.assumed = []
        self.file = None
        self.lineno = None


from .frames import walk_leaves, leaf_equal  # noqa


def invariant_clauses(spec, eng, sv, names, heap=True):
    out = []
    seen = set()

    def rec(v):
        if isinstance(v, ObjV):
            if id(v) in seen:
                return
            seen.add(id(v))
            inv = spec.invariants.get(v.cls)
            if inv:
                for nm, cl in inv(V(eng, sv._s, v), sv):
                    out.append((f"{v.cls}.{nm}", cl))
            for x in v.fields.values():
                rec(x)
        elif isinstance(v, Record):
            if id(v) in seen:
                return
            seen.add(id(v))
            for x in v.items.values():
                rec(x)
    for v in names.values():
        rec(v)
    if heap:
        for hi in getattr(spec, 'heap_invariants', []):
            for nm, cl in hi(sv):
                out.append((f"heap.{nm}", cl))
    return out


class Verifier:
    def __init__(self, source, spec):
        self.src = source
        self.spec = spec

    # ---------------------------------------------------------------- world / pre-state
    def setup(self, eng, c, fi):
        st = State()
        eng.st = st
        st.now = z3.Real('now0')
        st.assume(z3.IsInt(st.now))
        st.assume(st.now >= 0)
        names = {}
        if c.world is not None:
            names.update(c.world(eng))
        elif fi.cls is not None:
            if fi.cls in self.spec.entities:
                r = Sym('ref', z3.Int('self0'), fi.cls)
                st.assume(r.t > 0)
                st.assume(z3.Select(eng.alloc(), r.t))
                names['self'] = r
            else:
                names['self'] = eng.construct(fi.cls)
        a = fi.node.args
        pnames = [x.arg for x in a.args]
        dmap = {}
        if a.defaults:
            for n, d in zip(pnames[-len(a.defaults):], a.defaults):
                dmap[n] = d
        for p in pnames:
            if p == 'self' and fi.cls is not None:
                continue
            if p in c.fix:
                names[p] = c.fix[p]
            elif p in c.params:
                ty = c.params[p]
                if ty.startswith('root:'):
                    # the parameter is an object of the world: root:<name>[.field...]
                    cur = names
                    v = None
                    for i, part in enumerate(ty[5:].split('.')):
                        v = cur[part] if i == 0 else v.fields[part]
                    names[p] = v
                elif ty == 'env':
                    names[p] = ENV
                else:
                    v = eng.fresh_of_type(ty, 'arg_' + p)
                    if isinstance(v, Sym) and v.kind == 'ref' and v.cls in self.spec.entities and not ty.startswith('opt:'):
                        st.assume(z3.Select(eng.alloc(), v.t))
                    names[p] = v
            elif p in dmap:
                names[p] = eng.ev(dmap[p])
            else:
                raise OutOfSubset(f"contract of {c.qual} gives no type for parameter {p}")
        return names

    def make_probes(self, eng, names):
        """terms whose model values describe the concrete pre-state (for replay)"""
        pr = {}
        leaves, _ = walk_leaves(names)
        for path, v in leaves.items():
            if isinstance(v, Sym):
                if v.kind == 'ref' and v.cls in self.spec.entities:
                    pr[path] = v.t
                    for f, ty in self.spec.entities[v.cls].items():
                        if ty in ('num', 'int', 'bool', 'str', 'any', 'optnum') or ty.startswith('enum:') or ty.startswith('opt:ref') or ty.startswith('ref:'):
                            try:
                                pr[f"{path}.{f}"] = eng.heap_read(v, f).t
                            except Exception:
                                pass
                else:
                    pr[path] = v.t
            elif isinstance(v, ListObj):
                pr[path + '.n'] = v.n
                pr[path + '.cnt'] = v.cnt
            elif isinstance(v, DictObj):
                pr[path + '.nk'] = v.nk
                pr[path + '.keys'] = v.keys
                if v.vcnt is not None:
                    pr[path + '.vcnt'] = v.vcnt
                if v.vals is not None:
                    pr[path + '.vals'] = v.vals
        pr['now'] = eng.st.now
        return pr

    def invariant_clauses(self, eng, sv, names):
        return invariant_clauses(self.spec, eng, sv, names)

    def _unused(self, eng, sv, names):
        out = []
        seen = set()

        def rec(v):
            if isinstance(v, ObjV):
                if id(v) in seen:
                    return
                seen.add(id(v))
                inv = self.spec.invariants.get(v.cls)
                if inv:
                    for nm, cl in inv(V(eng, sv._s, v), sv):
                        out.append((f"{v.cls}.{nm}", cl))
                for x in v.fields.values():
                    rec(x)
            elif isinstance(v, Record):
                if id(v) in seen:
                    return
                seen.add(id(v))
                for x in v.items.values():
                    rec(x)
        for v in names.values():
            rec(v)
        for hi in getattr(self.spec, 'heap_invariants', []):
            for nm, cl in hi(sv):
                out.append((f"heap.{nm}", cl))
        return out

    # ---------------------------------------------------------------- a plain function
    def verify(self, qual):
        rep = FunctionReport(qual)
        fi = self.src.funcs.get(qual)
        c = self.spec.contracts.get(qual)
        if fi is None:
            rep.status = 'contract-mismatch'
            rep.reason = f"function {qual} no longer exists"
            return rep
        rep.file, rep.lineno = fi.file, fi.lineno
        eng = Engine(self.src, self.spec)
        try:
            if fi.is_generator:
                ny = len(fi.yields())
                if c.yields is None or set(c.yields.keys()) != set(range(ny)):
                    raise ContractMismatch(f"{qual} has {ny} yields, contract describes {sorted((c.yields or {}).keys())}")
                starts = [-1] + list(range(ny))
            else:
                starts = [None]
            for frm in starts:
                pending = [[]]
                while pending:
                    prefix = pending.pop()
                    rep.paths += 1
                    if rep.paths > MAX_PATHS:
                        raise OutOfSubset("too many paths")
                    self.run_path(eng, fi, c, prefix, rep, frm)
                    pending.extend(eng.oracle.pending)
                    eng.oracle.pending = []
        except ContractMismatch as e:
            rep.status = 'contract-mismatch'
            rep.reason = str(e)
        except OutOfSubset as e:
            rep.status = 'out-of-subset'
            rep.reason = str(e)
        rep.obligations = eng.obligations
        rep.erased = eng.erased
        rep.assumed = eng.assumed_calls
        rep.callees = sorted(set(eng.used_contracts))
        rep.vacuous = list(getattr(eng, 'vacuous', []))
        return rep

    def run_path(self, eng, fi, c, prefix, rep, frm=None):
        eng.oracle.start(prefix)
        eng.path_id = rep.paths
        eng.cur_contract = c
        eng.fn_stack = [fi]
        eng.guards = []
        eng.seek = None
        cache = self.__dict__.setdefault('_pre_cache', {})
        ck = (c.qual, frm)
        if ck in cache:
            # the pre-state of this function / segment was built on an earlier path: restore a private copy of it
            snap, snames, pos, probes = cache[ck]
            st = snap.clone()
            names = {k: memo_clone(v, st._memo) for k, v in snames.items()}
            eng.st = st
            eng.foreign = list(getattr(snap, '_foreign', []))
            eng.probes = dict(probes)
            eng.frm = frm
            if frm is not None and frm >= 0:
                eng.seek = fi.yields()[frm]
            reset_names(pos)
            st.locals = dict(names)
            old = eng.snapshot(names)
            return self.exec_path(eng, fi, c, names, old, rep, frm)
        reset_names()
        try:
            names = self.setup(eng, c, fi)
        except PathEnd:
            return
        st = eng.st
        roots = dict(names)
        if c.invariants and c.invariants != 'post':
            pre_sv0 = SV(eng, st, names)
            for nm, cl in self.invariant_clauses(eng, pre_sv0, names):
                st.assume(hyp_of(cl))
        elif c.invariants == 'post':
            pre_sv0 = SV(eng, st, names)
            for hi in getattr(self.spec, 'heap_invariants', []):
                for nm, cl in hi(pre_sv0):
                    st.assume(hyp_of(cl))
        if c.requires and (frm is None or frm == -1):
            ctx0 = Ctx(eng, SV(eng, st, names), SV(eng, st, names))
            for nm, cl in c.requires(ctx0):
                st.assume(hyp_of(cl))
        if frm is not None and frm >= 0:
            # resume after yield number frm: locals are arbitrary values satisfying the yield assertion
            for ln, ty in (c.locals_types or {}).items():
                names[ln] = eng.fresh_of_type(ty, 'loc_' + ln)
            names['_ytime'] = Sym('num', z3.Real('ytime0'), isint=True)
            names['_ydelay'] = Sym('num', z3.Real('ydelay0'))
            st.assume(z3.IsInt(names['_ytime'].t))
            st.assume(names['_ydelay'].t >= 0)
            st.assume(st.now == names['_ytime'].t + names['_ydelay'].t)     # S2: timeout(d) resumes at now + d
            ctxy = Ctx(eng, SV(eng, st, names), SV(eng, st, names))
            for nm, cl in c.yields[frm](ctxy):
                st.assume(hyp_of(cl))
            eng.seek = fi.yields()[frm]
        eng.frm = frm
        eng.probes = self.make_probes(eng, names)
        for qual, pred, gname, elem in self.spec.spawn_ghosts:
            eng.pending_ghost(gname)
            if fi.node.name == '__init__':
                # nothing has been spawned when the actors are constructed
                st.ghost[gname + '.cnt'] = EMPTY_CNT
                st.ghost[gname + '.n'] = z3.IntVal(0)
        if fi.node.name == '__init__':
            # ghost counters of an actor start at zero with the actor (nothing logged, nothing admitted)
            for gname, sort in getattr(self.spec, 'zero_at_init', {}).get(fi.cls, []):
                st.ghost[gname] = z3.RealVal(0) if sort == 'real' else z3.IntVal(0)
        if frm == -1:
            # this process was pending (spawned, not started) until now: S3 bookkeeping
            for qual, pred, gname, elem in self.spec.spawn_ghosts:
                if qual == c.qual:
                    pnd = pred(eng, names)
                    e = elem(eng, names)
                    cnt, n = eng.pending_ghost(gname)
                    st.assume(z3.Implies(pnd, z3.And(z3.Select(cnt, e) >= 1, n >= 1)))
                    st.ghost[gname + '.cnt'] = z3.Store(cnt, e, z3.Select(cnt, e) - z3.If(pnd, 1, 0))
                    st.ghost[gname + '.n'] = n - z3.If(pnd, 1, 0)
        # rely/guarantee: facts carried by OTHER process instances across their yields must survive this function / segment
        eng.foreign = []
        # (not for functions that run the event loop themselves: env.run executes the foreign processes' own segments)
        for cf in (getattr(self.spec, 'carried', []) if (c.invariants is True and 'world' not in c.modifies) else []):
            fp = {k: eng.fresh_of_type(t, 'foreign_' + k) for k, t in cf.params.items()}
            sv0 = SV(eng, st, names)
            f0 = cf.formula(sv0, fp, names)
            if f0 is None:
                continue
            # NOT assumed in the function's own verification (that would constrain its pre-state): the foreign fact is the
            # antecedent of the stability obligations only
            ante = [f0]
            if cf.distinct is not None:
                dd = cf.distinct(sv0, fp, names, c.qual, frm)
                if dd is not None:
                    ante.append(dd)
            eng.foreign.append((cf, fp, z3.And(ante)))
        snap = st.clone()
        snap._foreign = list(eng.foreign)
        cache[ck] = (snap, {k: memo_clone(v, snap._memo) for k, v in names.items()}, names_position(), dict(eng.probes))
        st.locals = dict(names)
        old = eng.snapshot(names)
        return self.exec_path(eng, fi, c, names, old, rep, frm)

    def exec_path(self, eng, fi, c, names, old, rep, frm):
        st = eng.st
        outcome = None
        try:
            try:
                eng.exec_block(fi.node.body)
                outcome = ('return', None)
            except ReturnSig as r:
                outcome = ('return', r.value)
            except RaiseSig as r:
                outcome = ('raise', r.exc, r.implicit, r.node)
            except YieldSig as y:
                outcome = ('yield', y.k, y.value)
        except PathEnd as pe:
            rep.outcomes[str(pe)] = rep.outcomes.get(str(pe), 0) + 1
            return
        rep.outcomes[outcome[0]] = rep.outcomes.get(outcome[0], 0) + 1
        if c.ghost and outcome[0] == 'return':
            eng.ret_value = outcome[1]      # ghost updates may depend on the decision returned
            c.ghost(eng, names)
        self.check_outcome(eng, fi, c, names, old, outcome, frm)

    def check_nondet(self, eng, c, names, tag):
        """C10: a value that is not a function of program state (wall clock, unseeded generator) may only flow into the
        declared sinks (the *-algtime columns)"""
        nd = eng.st.ghost.get('_nondet', [])
        if not nd:
            return
        ndnames = {t.decl().name(): what for t, what in nd}
        sinks = getattr(self.spec, 'nondet_sinks', set())

        def occurs(term):
            todo, seen = [term], set()
            while todo:
                x = todo.pop()
                if x.get_id() in seen:
                    continue
                seen.add(x.get_id())
                if z3.is_const(x) and x.decl().kind() == z3.Z3_OP_UNINTERPRETED and x.decl().name() in ndnames:
                    return ndnames[x.decl().name()]
                if z3.is_quantifier(x):
                    todo.append(x.body())
                elif z3.is_app(x):
                    todo.extend(x.children())
            return None
        leaves, _ = walk_leaves(names)
        for path, v in leaves.items():
            if any(path.endswith(sk) or ('.' + sk + '.') in path for sk in sinks):
                continue
            terms = []
            if isinstance(v, Sym):
                terms = [v.t]
            elif isinstance(v, ListObj):
                terms = [v.cnt, v.n]
            elif isinstance(v, DictObj):
                terms = [t for t in (v.keys, v.nk, v.vals, v.vcnt, v.vn) if t is not None]
            for t in terms:
                w = occurs(t)
                if w:
                    eng.oblige(f"det:{c.qual}:C10-nondeterministic-value-reaches-{path}", 'det', False)
                    break
        for k, arr in eng.st.heap.items():
            w = occurs(arr)
            if w:
                eng.oblige(f"det:{c.qual}:C10-nondeterministic-value-reaches-{k[0]}.{k[1]}", 'det', False)

    def check_spawns(self, eng, q, tag):
        """S3: a spawned process starts right after the spawning segment; its entry precondition must hold in the state
        the segment leaves behind (interference between sibling spawns is not modelled: see DESIGN 7.3)"""
        st = eng.st
        for i, (g, p, node) in enumerate(st.spawns):
            gc = self.spec.contracts.get(g.qual)
            if gc is None:
                eng.oblige(f"spawn:{q}:{tag}:{g.qual}:has-no-contract", 'pre', False, node)
                continue
            if not gc.requires:
                continue
            vals = dict(g.args)
            for pn, pv in gc.fix.items():
                if pn in vals and vals[pn] != pv:
                    eng.oblige(f"spawn-pre:{g.qual}@{q}:{tag}:fixed-param:{pn}", 'pre', False, node)
            sv = SV(eng, st, vals)
            ctx = Ctx(eng, sv, sv)
            for nm, cl in gc.requires(ctx):
                if nm.startswith('assume:'):
                    continue
                eng.oblige(f"spawn-pre:{g.qual}@{q}:{tag}:{nm}", 'pre', cl, node)

    def check_outcome(self, eng, fi, c, names, old, outcome, frm=None):
        st = eng.st
        q = c.qual
        if outcome[0] in ('yield', 'return') or (outcome[0] == 'raise' and c.raises.get(outcome[1], {}).get('unchanged', True) is False):
            svn = SV(eng, st, names)
            for cf, fp, ante in getattr(eng, 'foreign', []):
                f1 = cf.formula(svn, fp, names)
                if f1 is not None:
                    tagx = f"seg{frm}->{outcome[0]}" if frm is not None else outcome[0]
                    eng.oblige(f"stable:{q}:{tagx}:{cf.name}", 'stable', z3.Implies(ante, f1))
        if outcome[0] in ('yield', 'return'):
            self.check_nondet(eng, c, names, f"seg{frm}")
            self.check_spawns(eng, q, f"seg{frm}" if frm is not None else 'call')
            if frm is None or frm == -1:
                # a declared raise condition is exact: when it holds on entry the call must not complete normally
                ctx0 = Ctx(eng, old, old)
                for exc, r in c.raises.items():
                    if r.get('when') and r.get('exact', True):
                        eng.oblige(f"raises:{q}:{exc}:must-raise-when", 'post', z3.Not(r['when'](ctx0)))
        if frm is not None:
            # generator segment: the final view also sees the live locals
            allnames = dict(names)
            allnames.update(st.locals)
            new = SV(eng, st, allnames)
            tag = f"seg{frm}"
            if outcome[0] == 'yield':
                k, val = outcome[1], outcome[2]
                if not isinstance(val, TimeoutV):
                    raise OutOfSubset("yield of something that is not env.timeout(...)")
                allnames['_ytime'] = Sym('num', st.now, isint=True)
                allnames['_ydelay'] = val.delay
                ctx = Ctx(eng, old, new, None, {'frm': frm, 'to': k, 'spawns': list(st.spawns)})
                for nm, cl in c.yields[k](ctx):
                    if not nm.startswith('assume:'):
                        eng.oblige(f"yield:{q}:{tag}->y{k}:{nm}", 'yield', cl)
                if c.step:
                    for nm, cl in c.step(ctx):
                        eng.oblige(f"step:{q}:{tag}->y{k}:{nm}", 'post', cl)
                if c.invariants:
                    for nm, cl in self.invariant_clauses(eng, new, names):
                        eng.oblige(f"inv:{q}:{tag}->y{k}:{nm}", 'inv', cl)
                self.check_frame(eng, c, names, old, c.modifies, f'frame:{tag}->y{k}')
                return
            if outcome[0] == 'return':
                ctx = Ctx(eng, old, new, V(eng, st, outcome[1]), {'frm': frm, 'to': 'return', 'spawns': list(st.spawns)})
                if c.ensures:
                    for nm, cl in c.ensures(ctx):
                        eng.oblige(f"post:{q}:{tag}->return:{nm}", 'post', cl)
                if c.step:
                    for nm, cl in c.step(ctx):
                        eng.oblige(f"step:{q}:{tag}->return:{nm}", 'post', cl)
                if c.invariants:
                    for nm, cl in self.invariant_clauses(eng, new, names):
                        eng.oblige(f"inv:{q}:{tag}->return:{nm}", 'inv', cl)
                self.check_frame(eng, c, names, old, c.modifies, f'frame:{tag}->return')
                return
        new = SV(eng, st, names)
        if fi.node.name == '__init__' and isinstance(names.get('self'), ObjV):
            eng.coerce_types(names['self'], fi.cls)
        if outcome[0] == 'return':
            res = outcome[1]
            ctx = Ctx(eng, old, new, V(eng, st, res), {'spawns': list(st.spawns)})
            if c.ensures:
                for nm, cl in c.ensures(ctx):
                    eng.oblige(f"post:{q}:{nm}", 'post', cl)
            if c.invariants:
                for nm, cl in self.invariant_clauses(eng, new, names):
                    eng.oblige(f"inv:{q}:{nm}", 'inv', cl)
            self.check_frame(eng, c, names, old, c.modifies, 'frame')
        elif outcome[0] == 'raise':
            exc = outcome[1]
            r = c.raises.get(exc)
            if r is None:
                node = outcome[3]
                eng.oblige(f"exc:{q}:{exc}:undeclared-raise@{eng.site(node)}", 'exc', False, node)
                return
            ctx = Ctx(eng, old, old)
            if r.get('when'):
                eng.oblige(f"raises:{q}:{exc}:only-when", 'post', r['when'](ctx))
            if r.get('unchanged', True):
                self.check_frame(eng, c, names, old, [], f'raises-unchanged:{exc}')
            elif fi.node.name == '__init__':
                pass        # the constructor raised: no object exists
            else:
                if c.invariants:
                    for nm, cl in self.invariant_clauses(eng, new, names):
                        eng.oblige(f"inv:{q}:on-{exc}:{nm}", 'inv', cl)
                self.check_frame(eng, c, names, old, c.modifies, f'frame-on-{exc}')
        elif outcome[0] == 'yield':
            raise OutOfSubset("generator verified as a plain function")

    def check_frame(self, eng, c, names, old, modifies, kind):
        if '*' in modifies or 'world' in modifies:
            return
        # the locals of a generator are private to the process instance: not part of the frame
        priv = set((c.locals_types or {}).keys()) | {'_ytime', '_ydelay'}
        if priv & set(names):
            names = {k: v for k, v in names.items() if k not in priv}
            old = SV(eng, old._s, {k: v for k, v in old._names.items() if k not in priv})
        st = eng.st
        q = c.qual
        new_leaves, new_ids = walk_leaves(names)
        old_leaves, old_ids = walk_leaves(old._names)
        covered = set()
        for spec in modifies:
            loc = eng.resolve_loc(spec, names)
            if isinstance(loc, (ListObj, DictObj)):
                p = new_ids.get(id(loc))
                if p:
                    covered.add(p)
            elif isinstance(loc, tuple) and loc[0] in ('heap', 'ghost', 'now'):
                covered.add(':'.join(loc))
            else:
                cont, key = loc
                p = new_ids.get(id(cont))
                if p:
                    covered.add(f"{p}.{key}")
        for path, ov in old_leaves.items():
            if path in covered:
                continue
            nv = new_leaves.get(path, NotImplemented)
            if nv is NotImplemented:
                eng.oblige(f"{kind}:{q}:{path}:removed", 'frame', False)
                continue
            eq = leaf_equal(ov, nv)
            if eq is True:
                continue
            eng.oblige(f"{kind}:{q}:{path}", 'frame', eq if eq is not False else False)
        for path in new_leaves:
            if path not in old_leaves and path not in covered and not any(path.startswith(cp + '.') for cp in covered):
                # a new field/entry appeared on a world object
                eng.oblige(f"{kind}:{q}:{path}:added", 'frame', False)
        # heap
        oh = old._s.heap
        for k, arr in st.heap.items():
            cov = f"heap:{k[0]}:{k[1].split('.')[0]}"
            if cov in covered or k[0] in getattr(self.spec, 'value_classes', ()):
                continue
            o = oh.get(k)
            if o is None:
                o = z3.Const(f"H0!{k[0]}.{k[1]}", arr.sort())
            if not o.eq(arr):
                eng.oblige(f"{kind}:{q}:heap:{k[0]}.{k[1]}", 'frame', o == arr)
        for g, t in st.ghost.items():
            if g.startswith('_') or g == 'alloc' or g.startswith('pend_'):  # noqa
                continue
            o = old._s.ghost.get(g)
            if f"ghost:{g}" in covered or o is None:
                continue
            if not o.eq(t):
                eng.oblige(f"{kind}:{q}:ghost:{g}", 'frame', o == t)
        if 'now' not in covered and not old._s.now.eq(st.now):
            eng.oblige(f"{kind}:{q}:now", 'frame', old._s.now == st.now)
