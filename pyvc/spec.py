"""Contract language of pyvc (DESIGN.md section 6): registry, contracts, views over symbolic states."""
import z3
from .state import *  # noqa
from .core import Q, to_real


class Contract:
    def __init__(self, qual, params=None, fix=None, requires=None, ensures=None, raises=None, modifies=(),
                 result=None, inline=False, world=None, invariants=True, props=(), note=None, ghost_pre=None,
                 assumed=False, yields=None, step=None, locals_types=None, effect=None, ghost=None):
        self.qual = qual
        self.params = params or {}
        self.fix = fix or {}
        self.requires = requires            # fn(c) -> [(name, clause)]
        self.ensures = ensures              # fn(c) -> [(name, clause)]
        self.raises = raises or {}          # exc -> {'when': fn(c)->z3|None, 'unchanged': bool}
        self.modifies = list(modifies)
        self.result = result
        self.inline = inline
        self.world = world                  # fn(engine) -> dict root name -> value ; default: self of the class
        self.invariants = invariants
        self.props = list(props)            # property ids served by the obligations of this function
        self.note = note
        self.assumed = assumed              # contract of a dependency: never proved
        self.yields = yields                # generators: {yield ordinal: fn(c) -> clauses} (what holds while suspended there)
        self.step = step                    # generators: fn(c) -> clauses relating segment start (c.o) and end (c.n); c.x['frm'], c.x['to']
        self.locals_types = locals_types    # generators: types of the locals live across yields
        self.ghost = ghost                  # fn(eng, vals): ghost-state update performed when the function completes normally
        self.effect = effect                # fn(eng, vals, result_view): extra effect at call sites (e.g. a spawn)


class LoopSpec:
    def __init__(self, qual, ordinal, inv, modifies_locals=(), modifies=(), props=(), body=None, elem_types=None, order_independent=False, ordered=False, positions=()):
        self.qual = qual
        self.ordinal = ordinal
        self.inv = inv                      # fn(c) -> [(name, clause)]  ; c.loc(name), c.visited, c.index
        self.modifies_locals = list(modifies_locals)
        self.ordered = ordered              # the loop visits list items in position order: element = at(seq, |visited|)
        self.positions = list(positions)    # local lists whose appends keep track of positions
        self.order_independent = order_independent  # justification (in the sidecar) that the body commutes: no det obligation
        self.elem_types = elem_types or {}  # element type hints for local containers the loop fills
        self.body = body                    # fn(c) -> clauses checked at the end of every iteration (locals of the body visible)
        self.modifies = list(modifies)
        self.props = list(props)


class Carried:
    """a fact that a process instance carries across one of its yields (rely/guarantee, DESIGN 7): it must be stable under
    every segment / method of every OTHER process instance.  params: the foreign instance's parameters (fresh, arbitrary);
    formula(sv, p, roots) -> z3 Bool or None if the world lacks the objects; distinct(names, p) -> what separates the foreign
    instance from the one being verified (None: nothing assumed)"""
    def __init__(self, name, owner, params, formula, distinct=None, props=()):
        self.name = name
        self.owner = owner
        self.params = params
        self.formula = formula
        self.distinct = distinct
        self.props = list(props)


class Registry:
    def __init__(self):
        self.carried = []
        self.contracts = {}
        self.loops = {}
        self.entities = {}          # cls -> {field: type}
        self.ctor_params = {}       # cls -> {param: type}
        self.field_types = {}       # 'Cls.path' -> type override used at havoc
        self.const_fields = set()   # 'Cls.field' kept concrete at havoc
        self.invariants = {}        # cls -> fn(v, c) -> [(name, clause)]
        self.abstract = set()       # classes with no in-tree body (user algorithms ...)
        self.dep_classes = {}       # cls -> {method: handler(engine, recv, args, node)}
        self.class_attrs = {}
        self.lemmas = []            # (name, props, fn() -> (hyps, goal))
        self.entity_invariants = {}
        self.builders = {}          # cls -> fn(engine) -> ObjV (worlds that cannot be built by running __init__)
        self.inline_ok = set()
        self.zero_at_init = {}      # cls -> [(ghost name, 'int'|'real')]: ghost counters that start at 0 when the actor is constructed
        self.spawn_ghosts = []      # (generator qual, pred(eng, args) -> z3 Bool, ghost counter name): spawned-not-yet-started processes
        self.heap_invariants = []   # fn(sv) -> [(name, clause)]: invariants of the entity heap (assumed on entry, asserted on exit)  # cls -> fn(engine, st, ref) -> [z3]

    def contract(self, qual, **kw):
        c = Contract(qual, **kw)
        self.contracts[qual] = c
        return c

    def loop(self, qual, ordinal, **kw):
        l = LoopSpec(qual, ordinal, **kw)
        self.loops[(qual, ordinal)] = l
        return l

    def is_abstract(self, cls):
        return cls in self.abstract

    def make_object(self, engine, cls):
        return engine.construct(cls)


class V:
    """view of a value in a given symbolic state"""
    __slots__ = ('_e', '_s', '_v')

    def __init__(self, eng, st, v):
        object.__setattr__(self, '_e', eng)
        object.__setattr__(self, '_s', st)
        object.__setattr__(self, '_v', v)

    def __getattr__(self, name):
        v = self._v
        if isinstance(v, ObjV):
            if name not in v.fields:
                raise AttributeError(f"{v.cls}.{name}")
            return V(self._e, self._s, v.fields[name])
        if isinstance(v, Sym) and v.kind == 'ref' and v.cls:
            return V(self._e, self._s, self._e.heap_read(v, name, self._s))
        raise AttributeError(f"view of {v!r} has no attribute {name}")

    def __getitem__(self, k):
        v = self._v
        if isinstance(v, Record):
            return V(self._e, self._s, v.items[k])
        if isinstance(v, DictObj):
            kt = self._e.as_int_term(k._v if isinstance(k, V) else k)
            if v.vkind == 'list':
                return V(self._e, self._s, DictEntryList(v, kt, v.velem))
            t = z3.Select(v.vals, kt)
            kind = {'num': 'num', 'bool': 'bool', 'ref': 'ref'}.get(v.vkind, 'any')
            return V(self._e, self._s, Sym(kind, t, v.vcls))
        if isinstance(v, PyList):
            return V(self._e, self._s, v.items[k])
        if isinstance(v, TupleV):
            return V(self._e, self._s, v.items[k])
        raise KeyError(k)

    @property
    def val(self):
        return self._v

    @property
    def t(self):
        v = self._v
        if isinstance(v, Sym):
            return to_real(v.t) if v.kind == 'num' else v.t
        if isinstance(v, bool):
            return z3.BoolVal(v)
        if isinstance(v, (int, float)):
            return to_real(v)
        if v is None:
            return z3.IntVal(0)
        if isinstance(v, (str, EnumConst)):
            return self._e.lift(v).t
        raise TypeError(f"no term for {v!r}")

    @property
    def num(self):
        """numeric reading of the value (Python's own coercion rules; for untyped values: num_of)"""
        return self._e.num(self._v)

    # containers
    @property
    def cnt(self):
        return self._v.cnt

    @property
    def n(self):
        return self._v.n

    def count(self, x):
        return z3.Select(self._v.cnt, tm(self._e, x))

    def has(self, x):
        v = self._v
        if isinstance(v, DictObj):
            return z3.Select(v.keys, tm(self._e, x))
        return z3.Select(v.cnt, tm(self._e, x)) > 0

    @property
    def keys(self):
        return self._v.keys

    @property
    def nk(self):
        return self._v.nk

    @property
    def vcnt(self):
        return self._v.vcnt

    @property
    def vn(self):
        return self._v.vn

    @property
    def vals(self):
        return self._v.vals

    def isnone(self, field):
        return self._e.heap_isnone(self._v, field, self._s)


def tm(eng, x):
    if isinstance(x, V):
        x = x._v
    if z3.is_ast(x):
        return x
    return eng.as_int_term(x)


class SV:
    """view of a whole state: roots and arguments by name"""
    def __init__(self, eng, st, names):
        self._e = eng
        self._s = st
        self._names = names

    def __getattr__(self, name):
        if name in self._names:
            return V(self._e, self._s, self._names[name])
        raise AttributeError(name)

    def __getitem__(self, name):
        return V(self._e, self._s, self._names[name])

    def of(self, v):
        return V(self._e, self._s, v._v if isinstance(v, V) else v)

    @property
    def now(self):
        return self._s.now

    def heap(self, cls, field, sort=None):
        ty = self._e.field_type(cls, field.split('.')[0]) if '.' not in field else None
        if sort is None:
            if ty in ('num', 'int', 'optnum'):
                sort = R
            elif ty == 'bool':
                sort = B
            else:
                sort = I
        return self._e.heap_arr(self._s, cls, field, sort)

    def ghost(self, name):
        if name not in self._s.ghost:
            self._s.ghost[name] = z3.Int('ghost0_' + name)
        return self._s.ghost[name]

    def pending(self, gname):
        """(cnt, n) of the ghost multiset of spawned-not-yet-started processes"""
        return self._e.pending_ghost(gname, self._s)


class Ctx:
    def __init__(self, eng, old, new, result=None, extra=None):
        self.eng = eng
        self.o = old        # SV
        self.n = new        # SV
        self.result = result
        self.x = extra or {}
