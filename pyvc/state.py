"""Symbolic values and state for pyvc (see DESIGN.md section 5).

Numbers are SMT reals; list lengths / multiplicities are SMT ints (coerced with ToReal at the boundary).
References, interned strings and enum members are SMT ints (None == 0).
Objects of the *entity* classes (Machine, Task, Observation, WorkflowPlan ...) live in a Burstall heap:
one SMT array per (class, field).  Singleton actors (Cluster, Scheduler, Buffer, ...) and all containers
that they own are Python-level objects with identity (ObjV / ListObj / DictObj / Record), so aliasing
between them is exactly the aliasing the real constructors create.
"""
import itertools
import z3

_ctr = itertools.count(1)


def fresh_name(base):
    return f"{base}!{next(_ctr)}"


def reset_names(start=1):
    global _ctr
    _ctr = itertools.count(start)


def names_position():
    """next value of the fresh-name counter (without consuming it for callers that restore it right away)"""
    global _ctr
    v = next(_ctr)
    _ctr = itertools.count(v)
    return v


R = z3.RealSort()
I = z3.IntSort()
B = z3.BoolSort()
IntArr = z3.ArraySort(I, I)          # multiset: element -> multiplicity
BoolArr = z3.ArraySort(I, B)


class Sym:
    """A symbolic scalar: kind in num|bool|ref|str|enum|any ; t is the z3 term.
    ref/str/enum/any are Int-sorted.  cls: entity class for refs, enum class for enums."""
    __slots__ = ('kind', 't', 'cls', 'isint')

    def __init__(self, kind, t, cls=None, isint=False):
        self.kind = kind
        self.t = t
        self.cls = cls
        self.isint = isint      # for num: statically known to be integral

    def __repr__(self):
        return f"Sym({self.kind},{self.t},{self.cls})"


class OptNum(Sym):
    """a number-or-None entity field: t is the numeric value, none the flag"""
    __slots__ = ('none',)

    def __init__(self, t, none):
        Sym.__init__(self, 'num', t)
        self.none = none


class Strings:
    """Interning of string constants as ints (>= 10**6) and of enum members."""
    def __init__(self):
        self.s2i = {}
        self.i2s = {}

    def intern(self, s):
        if s not in self.s2i:
            k = 1000000 + len(self.s2i)
            self.s2i[s] = k
            self.i2s[k] = s
        return self.s2i[s]


STRINGS = Strings()


class EnumInfo:
    """Enum classes parsed from the source: name -> {member: value}."""
    def __init__(self):
        self.enums = {}
        self.codes = {}      # (cls, member) -> int
        self.rev = {}

    def add(self, cls, members):
        self.enums[cls] = members
        for m in members:
            if (cls, m) in self.codes:
                continue            # idempotent: the source may be loaded several times in one process
            c = 2000000 + len(self.codes)
            self.codes[(cls, m)] = c
            self.rev[c] = (cls, m)

    def code(self, cls, member):
        return self.codes[(cls, member)]


ENUMS = EnumInfo()


class EnumConst:
    __slots__ = ('cls', 'member')

    def __init__(self, cls, member):
        self.cls = cls
        self.member = member

    @property
    def code(self):
        return ENUMS.code(self.cls, self.member)

    @property
    def value(self):
        return ENUMS.enums[self.cls][self.member]

    def __eq__(self, o):
        return isinstance(o, EnumConst) and (o.cls, o.member) == (self.cls, self.member)

    def __hash__(self):
        return hash((self.cls, self.member))

    def __repr__(self):
        return f"{self.cls}.{self.member}"


class ListObj:
    """A Python list (or set when isset) abstracted to a multiset: cnt (Int->Int) and length n (Int).
    Element order is abstracted away (DESIGN 5.4).  elem: hint for element kind ('ref:Machine', 'num', ...)."""
    def __init__(self, cnt, n, elem=None, isset=False, label=None):
        self._cnt = cnt
        self._n = n
        self.elem = elem
        self.isset = isset
        self.label = label
        self.frozen = False     # being iterated
        self.last = None        # term of the last element when known (set by append, consumed by l[-1] / pop())
        self._seq = None        # identity of the current sequence value (positions), fresh after every mutation

    @property
    def cnt(self):
        return self._cnt

    @cnt.setter
    def cnt(self, v):
        self._cnt = v
        self.last = None
        self._seq = None

    @property
    def seq(self):
        if getattr(self, '_seq', None) is None:
            self._seq = z3.Int(fresh_name('seq'))
        return self._seq

    @property
    def n(self):
        return self._n

    @n.setter
    def n(self, v):
        self._n = v

    def clone(self, memo):
        c = ListObj(self._cnt, self._n, self.elem, self.isset, self.label)
        c.frozen = self.frozen
        c.last = self.last
        c._seq = getattr(self, '_seq', None)
        return c


EMPTY_CNT = z3.K(I, z3.IntVal(0))


def empty_list(elem=None, isset=False, label=None):
    return ListObj(EMPTY_CNT, z3.IntVal(0), elem, isset, label)


def fresh_list(base, elem=None, isset=False):
    return ListObj(z3.Const(fresh_name(base + '.cnt'), IntArr), z3.Int(fresh_name(base + '.n')), elem, isset, base)


class DictObj:
    """dict with symbolic keys.  keys: Int->Bool ; nk: number of keys.
    vkind: 'num' (vals: Int->Real), 'ref'/'str'/'any' (vals: Int->Int), 'list' (vcnt: Int->(Int->Int), vn: Int->Int),
    'tuple2' (two Int->Int arrays)."""
    def __init__(self, keys, nk, vkind, vals=None, vcnt=None, vn=None, velem=None, vcls=None, label=None):
        self.keys = keys
        self.nk = nk
        self.vkind = vkind
        self.vals = vals
        self.vcnt = vcnt
        self.vn = vn
        self.velem = velem
        self.vcls = vcls
        self.label = label
        self.kcls = None        # class of the keys when they are entity objects

    def clone(self, memo):
        d = DictObj(self.keys, self.nk, self.vkind, self.vals, self.vcnt, self.vn, self.velem, self.vcls, self.label)
        d.kcls = self.kcls
        if hasattr(self, 'frozen'):
            d.frozen = self.frozen
        if getattr(self, 'isnum', None) is not None:
            d.isnum, d.numval = self.isnum, self.numval
        return d


class DictEntryList(ListObj):
    """View of d[k] where d is a dict of lists: reads/writes go to the dict's arrays."""
    def __init__(self, d, k, elem=None):
        self.d = d
        self.k = k
        self.elem = elem
        self.isset = False
        self.label = None
        self.frozen = False
        self.last = None
        self._seq = None

    @property
    def cnt(self):
        return z3.Select(self.d.vcnt, self.k)

    @cnt.setter
    def cnt(self, v):
        self.d.vcnt = z3.Store(self.d.vcnt, self.k, v)

    @property
    def n(self):
        return z3.Select(self.d.vn, self.k)

    @n.setter
    def n(self, v):
        self.d.vn = z3.Store(self.d.vn, self.k, v)

    def clone(self, memo):
        return DictEntryList(memo_clone(self.d, memo), self.k, self.elem)


class Record:
    """dict literal with constant keys (strings or ints): a Python-level mapping key -> value."""
    def __init__(self, items, label=None):
        self.items = dict(items)
        self.label = label

    def clone(self, memo):
        r = Record({}, self.label)
        memo[id(self)] = r
        r.items = {k: memo_clone(v, memo) for k, v in self.items.items()}
        return r


class ObjV:
    """A Python-level object with identity (singleton actor)."""
    def __init__(self, cls, fields=None, label=None):
        self.cls = cls
        self.fields = fields if fields is not None else {}
        self.label = label or cls

    def clone(self, memo):
        o = ObjV(self.cls, {}, self.label)
        memo[id(self)] = o
        o.fields = {k: memo_clone(v, memo) for k, v in self.fields.items()}
        return o

    def __repr__(self):
        return f"<{self.label}>"


class TupleV:
    def __init__(self, items):
        self.items = list(items)

    def clone(self, memo):
        return TupleV([memo_clone(v, memo) for v in self.items])


class PyList:
    """A Python list of statically known length (e.g. self.cl = ['default'], dict .keys() of a Record)."""
    def __init__(self, items):
        self.items = list(items)

    def clone(self, memo):
        return PyList([memo_clone(v, memo) for v in self.items])


class GenV:
    """A generator object: the result of calling a generator function (not yet started)."""
    def __init__(self, qual, selfv, args, site=None):
        self.qual = qual
        self.selfv = selfv
        self.args = args
        self.site = site

    def clone(self, memo):
        return GenV(self.qual, memo_clone(self.selfv, memo), {k: memo_clone(v, memo) for k, v in self.args.items()}, self.site)


class ProcV:
    """Result of env.process(gen): a process handle; triggered is a Bool term."""
    def __init__(self, gen, triggered):
        self.gen = gen
        self.triggered = triggered

    def clone(self, memo):
        return ProcV(memo_clone(self.gen, memo), self.triggered)


class TimeoutV:
    def __init__(self, delay):
        self.delay = delay

    def clone(self, memo):
        return TimeoutV(self.delay)


class Opaque:
    """Something the encoding does not interpret (loggers, pandas frames, module objects)."""
    def __init__(self, what):
        self.what = what

    def clone(self, memo):
        return self

    def __repr__(self):
        return f"Opaque({self.what})"


class BoundMethod:
    def __init__(self, recv, name):
        self.recv = recv
        self.name = name

    def clone(self, memo):
        return BoundMethod(memo_clone(self.recv, memo), self.name)


class ClassV:
    def __init__(self, name):
        self.name = name

    def clone(self, memo):
        return self


def memo_clone(v, memo):
    if v is None or isinstance(v, (int, float, str, bool, Sym, EnumConst, Opaque, ClassV)):
        return v
    if z3.is_ast(v):
        return v
    k = id(v)
    if k in memo:
        return memo[k]
    c = v.clone(memo)
    memo[k] = c
    return c


class State:
    def __init__(self):
        self.pc = []            # list of z3 Bool: path condition (includes assumptions)
        self._pc_ids = set()    # AST ids of the hypotheses (a clause is recorded once)
        self.heap = {}          # (cls, field) -> z3 array
        self.locals = {}
        self.roots = {}         # name -> ObjV etc: the world
        self.now = None         # z3 Real: env.now
        self.ghost = {}         # name -> z3 term
        self.spawns = []        # GenV list, in spawn order
        self.events = []        # trace of noteworthy things (for reports)
        self.reads = {}         # (cls, field, reftermstr) -> term : initial heap reads (for replay)

    def clone(self):
        memo = {}
        s = State()
        s.pc = list(self.pc)
        s._pc_ids = set(self._pc_ids)
        s.heap = dict(self.heap)
        s.locals = {k: memo_clone(v, memo) for k, v in self.locals.items()}
        s.roots = {k: memo_clone(v, memo) for k, v in self.roots.items()}
        s.now = self.now
        s.ghost = {k: (set(v) if isinstance(v, set) else list(v) if isinstance(v, list) else v) for k, v in self.ghost.items()}
        s.spawns = [(memo_clone(g, memo), memo_clone(p, memo), nd) for g, p, nd in self.spawns]
        s.events = list(self.events)
        s.reads = self.reads
        s._memo = memo
        return s

    def assume(self, f):
        if isinstance(f, bool):
            if f:
                return
            f = z3.BoolVal(False)
        if z3.is_true(f):
            return
        k = f.get_id()
        if k in self._pc_ids:
            return
        self._pc_ids.add(k)
        self.pc.append(f)
