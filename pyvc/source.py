"""Front end: parse /repo/topsim on every run; index classes, functions, enums, module constants."""
import ast
import hashlib
import os
import subprocess

from .state import ENUMS

REPO = os.environ.get('TOPSIM_REPO', '/repo')


class FuncInfo:
    def __init__(self, qual, node, file, cls, src_lines):
        self.qual = qual
        self.node = node
        self.file = file
        self.cls = cls
        self.is_generator = any(isinstance(n, (ast.Yield, ast.YieldFrom)) for n in ast.walk(node))
        self.is_property = any(isinstance(d, ast.Name) and d.id == 'property' for d in node.decorator_list)
        self.src = ''.join(src_lines[node.lineno - 1:node.end_lineno])
        self.lineno = node.lineno

    def loops(self):
        """loop statements of the function in source order (ordinal = index)"""
        out = [n for n in ast.walk(self.node) if isinstance(n, (ast.For, ast.While))]
        out.sort(key=lambda n: (n.lineno, n.col_offset))
        return out

    def yields(self):
        out = [n for n in ast.walk(self.node) if isinstance(n, ast.Yield)]
        out.sort(key=lambda n: (n.lineno, n.col_offset))
        return out


class Source:
    def __init__(self, repo=None):
        self.repo = repo or REPO
        self.funcs = {}
        self.classes = {}       # name -> ClassDef
        self.class_file = {}
        self.bases = {}
        self.consts = {}        # module-level simple constants by name (TIMESTEP ...)
        self.files = {}
        self.blob = {}
        self._load()

    DEAD = {'topsim/core/workflow.py': 'core.workflow'}     # duplicate class names; indexed only if something imports it

    def _load(self):
        root = os.path.join(self.repo, 'topsim')
        texts = {}
        for dp, dn, fn in sorted(os.walk(root)):
            for f in sorted(fn):
                if f.endswith('.py'):
                    p = os.path.join(dp, f)
                    texts[os.path.relpath(p, self.repo)] = open(p).read()
        self.skipped = []
        for rel, marker in self.DEAD.items():
            if rel in texts and not any(marker in t or 'import workflow' in t for r, t in texts.items() if r != rel):
                self.skipped.append(rel)
        for dp, dn, fn in sorted(os.walk(root)):
            for f in sorted(fn):
                if not f.endswith('.py'):
                    continue
                p = os.path.join(dp, f)
                rel = os.path.relpath(p, self.repo)
                if rel in self.skipped:
                    continue
                txt = open(p).read()
                self.blob[rel] = hashlib.sha1(txt.encode()).hexdigest()
                try:
                    tree = ast.parse(txt)
                except SyntaxError as e:
                    raise SystemExit(f"cannot parse {rel}: {e}")
                lines = txt.splitlines(keepends=True)
                self.files[rel] = (tree, lines)
                self._index(tree, rel, lines)

    def _index(self, tree, rel, lines, prefix=''):
        for n in tree.body:
            if isinstance(n, ast.ClassDef):
                self._index_class(n, rel, lines, prefix)
            elif isinstance(n, ast.FunctionDef):
                self.funcs[prefix + n.name] = FuncInfo(prefix + n.name, n, rel, None, lines)
            elif isinstance(n, ast.Assign) and len(n.targets) == 1 and isinstance(n.targets[0], ast.Name) \
                    and isinstance(n.value, ast.Constant):
                self.consts[n.targets[0].id] = n.value.value

    def _index_class(self, n, rel, lines, prefix):
        name = n.name
        self.classes[name] = n
        self.class_file[name] = rel
        bases = [ast.unparse(b) for b in n.bases]
        self.bases[name] = bases
        # class-level simple constants (e.g. Telescope.name = 'telescope'), read from the source on every run
        cc = getattr(self, 'class_consts', None)
        if cc is None:
            cc = self.class_consts = {}
        for s_ in n.body:
            if isinstance(s_, ast.Assign) and len(s_.targets) == 1 and isinstance(s_.targets[0], ast.Name) \
                    and isinstance(s_.value, ast.Constant):
                cc.setdefault(name, {})[s_.targets[0].id] = s_.value
        if any(b.split('.')[-1] == 'Enum' for b in bases):
            members = {}
            for s in n.body:
                if isinstance(s, ast.Assign) and len(s.targets) == 1 and isinstance(s.targets[0], ast.Name) \
                        and isinstance(s.value, ast.Constant):
                    members[s.targets[0].id] = s.value.value
            ENUMS.add(name, members)
        for s in n.body:
            if isinstance(s, ast.FunctionDef):
                q = f"{name}.{s.name}"
                self.funcs[q] = FuncInfo(q, s, rel, name, lines)
            elif isinstance(s, ast.ClassDef):
                # nested class (DelayModel.DelayDegree): index under its own name
                self._index_class(s, rel, lines, prefix)

    def find_method(self, cls, name):
        """method resolution through the in-tree bases"""
        seen = set()
        todo = [cls]
        while todo:
            c = todo.pop(0)
            if c in seen:
                continue
            seen.add(c)
            q = f"{c}.{name}"
            if q in self.funcs:
                return self.funcs[q]
            for b in self.bases.get(c, []):
                todo.append(b.split('.')[-1])
        return None

    def head(self):
        try:
            return subprocess.run(['git', '-C', self.repo, 'rev-parse', 'HEAD'], capture_output=True, text=True).stdout.strip()
        except Exception:
            return ''
