"""pyvc: calls (builtins, contracts, inlining), object construction, havoc, loop cutting."""
import ast
import z3
from .core import *  # noqa
from .state import *  # noqa
from .interp import Interp, ENV, EnvV
from .spec import V, SV, Ctx


class Engine(Interp):
    def __init__(self, source, spec):
        super().__init__(source, spec)
        self.seek = None
        self.handling = []
        self.loop_hits = {}
        self.call_depth = 0

    # ================================================================ argument binding
    def bind(self, fi, selfv, args, kwargs, node):
        a = fi.node.args
        names = [x.arg for x in a.args]
        vals = {}
        pos = list(args)
        if fi.cls is not None and names and names[0] == 'self':
            vals['self'] = selfv
            names = names[1:]
        defaults = a.defaults
        dmap = {}
        if defaults:
            for n, d in zip([x.arg for x in a.args][-len(defaults):], defaults):
                dmap[n] = d
        for n in names:
            if pos:
                vals[n] = pos.pop(0)
            elif n in kwargs:
                vals[n] = kwargs.pop(n)
            elif n in dmap:
                vals[n] = self.ev(dmap[n])
            else:
                raise OutOfSubset(f"missing argument {n} for {fi.qual} at line {getattr(node, 'lineno', '?')}")
        if pos or (kwargs and not a.kwarg):
            raise OutOfSubset(f"extra arguments for {fi.qual}")
        return vals

    # ================================================================ call dispatch
    def call(self, e):
        f = e.func
        kwargs = {}
        for k in e.keywords:
            if k.arg is None:
                raise OutOfSubset("**kwargs call")
            kwargs[k.arg] = None  # placeholder, evaluated below in order
        if isinstance(f, ast.Attribute):
            recv = self.ev(f.value)
            args = [self.ev(a) for a in e.args]
            for k in e.keywords:
                kwargs[k.arg] = self.ev(k.value)
            return self.call_method(recv, f.attr, args, kwargs, e)
        if isinstance(f, ast.Name) and f.id == 'next' and f.id not in self.st.locals and e.args and isinstance(e.args[0], ast.GeneratorExp):
            rest = [None] + [self.ev(a) for a in e.args[1:]]
            return self.next_of_generator(e.args[0], rest, e)
        fv = self.ev(f)
        args = [self.ev(a) for a in e.args]
        for k in e.keywords:
            kwargs[k.arg] = self.ev(k.value)
        if isinstance(fv, Opaque) and fv.what.startswith('builtin:'):
            return self.call_builtin(fv.what[8:], args, kwargs, e)
        if isinstance(fv, ClassV):
            return self.instantiate(fv.name, args, kwargs, e)
        if isinstance(fv, Opaque) and fv.what.startswith('exc:'):
            return Opaque(fv.what)
        if isinstance(f, ast.Name) and f.id in self.src.funcs:
            return self.call_function(self.src.funcs[f.id], None, args, kwargs, e)
        raise OutOfSubset(f"call of {ast.unparse(f)} at line {e.lineno}")

    def with_bound(self, target, value, fn):
        """evaluate fn() with the local `target` bound to `value` (comprehension / lambda parameter), restoring it afterwards"""
        saved = self.st.locals.get(target, NotImplemented)
        self.st.locals[target] = value
        try:
            return fn()
        finally:
            if saved is NotImplemented:
                self.st.locals.pop(target, None)
            else:
                self.st.locals[target] = saved

    def extreme_of_collection(self, name, coll, kwargs, node):
        """max(L) / min(L) / max(L, key=lambda t: e) [default=d]: some member r of L whose key no member exceeds (order of
        equal keys abstracted); ValueError on an empty collection without default"""
        if isinstance(coll, DictObj):
            coll = self.to_list(coll, node)
        if isinstance(coll, PyList):
            if not coll.items:
                raise OutOfSubset("max/min of an empty literal")
            return self.call_builtin(name, list(coll.items), {}, node) if 'key' not in kwargs else self._extreme_fail()
        if not isinstance(coll, ListObj):
            raise OutOfSubset("max/min of a non-list")
        keynode = None
        for kw in getattr(node, 'keywords', []):
            if kw.arg == 'key':
                keynode = kw.value
        if keynode is not None and not (isinstance(keynode, ast.Lambda) and len(keynode.args.args) == 1):
            raise OutOfSubset("max/min with a key that is not a one-argument lambda")
        self.bag_facts(coll)
        has_default = 'default' in kwargs
        if has_default:
            if self.branch(coll.n == 0):
                return kwargs['default']
        else:
            self.check_or_raise(coll.n > 0, 'ValueError', node, f"{name}() arg is an empty sequence")
        rt = z3.Int(fresh_name('ext'))
        self.st.assume(z3.Select(coll.cnt, rt) > 0)
        r = self.elem_value(coll, rt)

        def key_of(v):
            if keynode is None:
                return self.num(v)
            return self.num(self.with_bound(keynode.args.args[0].arg, v, lambda: self.ev(keynode.body)))
        kr = key_of(r)
        x = z3.Int(fresh_name('exq'))
        self.guards.append(z3.Select(coll.cnt, x) > 0)
        try:
            kx = key_of(self.elem_value(coll, x))
        finally:
            self.guards.pop()
        self.st.assume(z3.ForAll([x], z3.Implies(z3.Select(coll.cnt, x) > 0, (kx <= kr) if name == 'max' else (kx >= kr))))
        return r

    def _extreme_fail(self):
        raise OutOfSubset("max/min of a literal list with a key")

    def next_of_generator(self, gen, args, node):
        """next((e for x in L if c), default): a member x of L with c (the FIRST in list order: order is abstracted, so any), or
        the default when no member satisfies c (StopIteration without default)"""
        if not (isinstance(gen, ast.GeneratorExp) and len(gen.generators) == 1 and isinstance(gen.generators[0].target, ast.Name)):
            raise OutOfSubset("next() of something else than a one-clause generator expression")
        g0 = gen.generators[0]
        src = self.ev(g0.iter)
        if isinstance(src, DictObj):
            src = self.to_list(src, node)
        if not isinstance(src, ListObj):
            raise OutOfSubset("next() over a non-list")
        self.bag_facts(src)
        tname = g0.target.id

        def cond_for(v):
            if not g0.ifs:
                return z3.BoolVal(True)
            return z3.And([self.with_bound(tname, v, (lambda i=i: self.cond(i))) for i in g0.ifs])
        x = z3.Int(fresh_name('nxq'))
        self.guards.append(z3.Select(src.cnt, x) > 0)
        try:
            cx = cond_for(self.elem_value(src, x))
        finally:
            self.guards.pop()
        none = z3.ForAll([x], z3.Implies(z3.Select(src.cnt, x) > 0, z3.Not(cx)))
        if self.branch(none):
            if len(args) > 1:
                return args[1]
            raise RaiseSig('StopIteration', node=node)
        rt = z3.Int(fresh_name('nxt'))
        self.st.assume(z3.Select(src.cnt, rt) > 0)
        r = self.elem_value(src, rt)
        self.st.assume(cond_for(r))
        return self.with_bound(tname, r, lambda: self.ev(gen.elt))

    def call_method(self, recv, name, args, kwargs, node):
        if isinstance(recv, BoundMethod):
            raise OutOfSubset("method of method")
        if isinstance(recv, ListObj):
            return self.list_method(recv, name, args, node)
        if isinstance(recv, DictObj):
            return self.dict_method(recv, name, args, node)
        if isinstance(recv, Record):
            if name == 'keys':
                return PyList(list(recv.items.keys()))
            if name == 'items':
                return PyList([TupleV([k, v]) for k, v in recv.items.items()])
            if name == 'get':
                return recv.items.get(args[0], args[1] if len(args) > 1 else None)
            if recv.label == 'DataFrame':
                if name == 'join':
                    # assumed (pandas): the outer join of one-row frames is one row
                    self.note_assumed('pandas.DataFrame.join')
                    f = Sym('any', z3.Int(fresh_name('joined')))
                    self.st.assume(z3.Function('df_rows', I, I)(f.t) == 1)
                    return f
                return Opaque('DataFrame')
            raise OutOfSubset(f"record method {name}")
        if isinstance(recv, PyList):
            if name == 'append':
                recv.items.append(args[0])
                return None
            raise OutOfSubset(f"literal-list method {name}")
        if isinstance(recv, EnvV):
            return self.env_method(name, args, kwargs, node)
        if isinstance(recv, ObjV):
            if self.spec.is_abstract(recv.cls) and f"{recv.cls}.{name}" in self.spec.contracts:
                return self.call_abstract(recv, name, args, kwargs, node)
            fi = self.src.find_method(recv.cls, name)
            if fi is None:
                raise OutOfSubset(f"no method {recv.cls}.{name}")
            return self.call_function(fi, recv, args, kwargs, node)
        if isinstance(recv, Sym) and recv.kind == 'ref' and recv.cls:
            if recv.cls in self.spec.dep_classes:
                h = self.spec.dep_classes[recv.cls].get(name)
                if h is None:
                    raise OutOfSubset(f"no assumed contract for {recv.cls}.{name}")
                self.note_assumed(f"{recv.cls}.{name}")
                self.dep_kwargs(name, kwargs)
                return h(self, recv, args, node)
            fi = self.src.find_method(recv.cls, name)
            if fi is None:
                raise OutOfSubset(f"no method {recv.cls}.{name}")
            self.check_or_raise(recv.t != 0, 'AttributeError', node, f"None.{name}()")
            return self.call_function(fi, recv, args, kwargs, node)
        if isinstance(recv, Opaque):
            return self.call_opaque(recv, name, args, kwargs, node)
        if isinstance(recv, ClassV):
            h = self.spec.dep_classes.get(recv.name, {}).get(name)
            if h:
                self.dep_kwargs(name, kwargs)
                return h(self, recv, args, node)
            raise OutOfSubset(f"class method {recv.name}.{name}")
        if isinstance(recv, str) or (isinstance(recv, Sym) and recv.kind == 'str'):
            if name in ('format', 'split', 'replace', 'strip'):
                return Sym('str', z3.Int(fresh_name('strres')))
        if isinstance(recv, Sym) and recv.kind == 'dframe':
            if name in ('infer_objects', 'fillna', 'copy'):
                self.note_assumed(f'pandas.DataFrame.{name} (same rows and columns)')
                f = Sym('dframe', z3.Int(fresh_name('frame')))
                DFR, DFC = z3.Function('df_rows', I, I), z3.Function('df_cols', I, I)
                self.st.assume(z3.And(DFR(f.t) == DFR(recv.t), DFC(f.t) == DFC(recv.t)))
                return f
            raise OutOfSubset(f"no assumed contract for DataFrame.{name}")
        if isinstance(recv, Sym) and recv.kind == 'any' and name in ('infer_objects', 'fillna', 'copy'):
            return recv         # assumed (pandas): same rows
        if isinstance(recv, Sym) and recv.kind == 'any':
            raise OutOfSubset(f"method {name} on untyped value at line {getattr(node, 'lineno', '?')}")
        raise OutOfSubset(f"method {name} on {recv!r} at line {getattr(node, 'lineno', '?')}")

    def note_assumed(self, what):
        if what not in self.assumed_calls:
            self.assumed_calls.append(what)

    DEP_KWARGS_MODELLED = {'concat': {'ignore_index'}}

    def dep_kwargs(self, name, kwargs):
        """the assumed contracts of dependency calls are stated for the positional form used in the tree; a keyword argument
        they do not model (nx.relabel_nodes(..., copy=False) mutates its argument!) must not be silently ignored"""
        for k in (kwargs or {}):
            if k not in self.DEP_KWARGS_MODELLED.get(name, ()):
                raise OutOfSubset(f"keyword argument {k}= of the dependency call {name}() is not covered by its assumed contract")

    def call_opaque(self, recv, name, args, kwargs, node):
        w = recv.what
        if w == 'module:copy' and name == 'copy':
            v = args[0]
            if isinstance(v, DictObj):
                c = v.clone({})
                c.frozen = False
                return c
            if isinstance(v, ListObj):
                return self.list_copy(v)
            return v       # copy of an immutable / shared model object
        if w == 'module:time' and name == 'time':
            self.note_assumed('time.time() (wall clock, nondeterministic)')
            w_ = Sym('num', z3.Real(fresh_name('wallclock')))
            self.st.ghost.setdefault('_nondet', []).append((w_.t, f"time.time() at line {getattr(node, 'lineno', '?')}"))
            return w_
        if w == 'module:pd' and name in self.spec.dep_classes.get('module:pd', {}):
            self.note_assumed(f"pandas.{name}")
            self.dep_kwargs(name, kwargs)
            return self.spec.dep_classes['module:pd'][name](self, recv, args, node)
        if w in ('module:logging', 'module:LOGGER', 'module:logger'):
            return None
        if w == 'super':
            # super().m(...): the method of the first in-tree base class that defines it, on the same object
            cur = self.fn_stack[-1].cls if self.fn_stack else None
            for b in self.src.bases.get(cur, []):
                fi = self.src.find_method(b.split('.')[-1], name)
                if fi is not None:
                    return self.exec_inline(fi, self.st.locals.get('self'), args, kwargs, node)
            return None
        h = self.spec.dep_classes.get(w, {}).get(name)
        if h:
            self.note_assumed(f"{w}.{name}")
            self.dep_kwargs(name, kwargs)
            return h(self, recv, args, node)
        if w.startswith('path') and name == 'as_posix':
            return Sym('str', z3.Function('posix_of', I, I)(recv.arg) if getattr(recv, 'arg', None) is not None else z3.Int(fresh_name('posix')))
        if w.startswith('DataFrame') or w.startswith('path'):
            return Opaque(w)
        raise OutOfSubset(f"call {w}.{name} at line {getattr(node, 'lineno', '?')}")

    def env_method(self, name, args, kwargs, node):
        if name == 'timeout':
            d = args[0]
            dn = self.num(d)
            self.check_or_raise(dn >= 0, 'ValueError', node, 'negative timeout')
            return TimeoutV(Sym('num', dn))
        if name == 'run':
            # ASSUMED (SimPy + the segment rule): env.run executes process segments; each preserves the invariants of the
            # actors (proved per segment), time does not go backwards and stops exactly at `until`
            until = kwargs.get('until', args[0] if args else None)
            old_now = self.st.now
            if until is not None:
                u = self.num(until)
                self.check_or_raise(u > old_now, 'ValueError', node, 'env.run(until) not in the future')
            self.note_assumed('simpy.Environment.run (S1-S7) + segment rule')
            self.havoc_world('env.run')
            from .driver import invariant_clauses
            roots = {k: v for k, v in self.st.locals.items() if isinstance(v, ObjV)}
            sv = SV(self, self.st, roots)
            for nm, cl in invariant_clauses(self.spec, self, sv, roots):
                self.st.assume(hyp_of(cl))
            if until is not None:
                self.st.assume(self.st.now == u)
            return None
        if name == 'process':
            g = args[0]
            if not isinstance(g, GenV):
                raise OutOfSubset("env.process of a non-generator")
            return self.spawn(g, node)
        raise OutOfSubset(f"env.{name}")

    def spawn(self, g, node):
        p = ProcV(g, z3.Bool(fresh_name('triggered')))
        self.st.assume(z3.Not(p.triggered))     # S4: a process that has not run yet has not returned
        self.st.spawns.append((g, p, node))
        if ('spawn:' + g.qual) not in self.used_contracts:
            self.used_contracts.append('spawn:' + g.qual)
        for qual, pred, gname, elem in self.spec.spawn_ghosts:
            if g.qual == qual:
                cnt, n = self.pending_ghost(gname)
                d = z3.If(pred(self, g.args), 1, 0)
                e = elem(self, g.args)
                self.st.ghost[gname + '.cnt'] = z3.Store(cnt, e, z3.Select(cnt, e) + d)
                self.st.ghost[gname + '.n'] = n + d
        return p

    def pending_ghost(self, gname, st=None):
        """ghost multiset of spawned-but-not-yet-started processes (by the element they concern)"""
        st = st or self.st
        if gname + '.cnt' not in st.ghost:
            st.ghost[gname + '.cnt'] = z3.Const('ghost0_' + gname + '.cnt', IntArr)
            st.ghost[gname + '.n'] = z3.Int('ghost0_' + gname + '.n')
            l = ListObj(st.ghost[gname + '.cnt'], st.ghost[gname + '.n'])
            self.bag_facts(l, st)
            st.assume(z3.Implies(l.cnt == EMPTY_CNT, l.n == 0))
        return st.ghost[gname + '.cnt'], st.ghost[gname + '.n']

    # ---------------------------------------------------------------- builtin methods
    def list_method(self, l, name, args, node):
        if name in ('append', 'add'):
            self.list_append(l, args[0], node)
            return None
        if name == 'remove':
            self.list_remove(l, args[0], node)
            return None
        if name == 'pop':
            if args and not (isinstance(args[0], int) and args[0] == -1):
                return self.list_pick(l, node, 'pop(i) from empty list', remove=True)
            return self.list_pick(l, node, 'pop from empty list', remove=True, want_last=True)
        if name == 'extend' and not l.isset:
            other = args[0]
            if isinstance(other, DictObj):
                other = self.to_list(other, node)
            if not isinstance(other, ListObj):
                raise OutOfSubset("list.extend with a non-list")
            if other.isset or getattr(other, 'hash_ordered', False):
                # C10: the elements of a set arrive in hash order: the order of the extended LIST depends on the hash seed
                fq = self.fn_stack[-1].qual if self.fn_stack else '?'
                self.oblige(f"det:{fq}:C10-iteration-order-independent-of-the-hash-seed@{self.site(node)}", 'det', False, node)
            self.bag_facts(l)
            self.bag_facts(other)
            if getattr(l, 'frozen', False):
                raise OutOfSubset("list mutated while it is being iterated")
            new = fresh_list('extended', l.elem or other.elem)
            x = z3.Int(fresh_name('ex'))
            self.st.assume(z3.ForAll([x], z3.Select(new.cnt, x) == z3.Select(l.cnt, x) + z3.Select(other.cnt, x)))
            self.st.assume(new.n == l.n + other.n)
            l.cnt, l.n = new.cnt, new.n
            l.last = None
            if hasattr(l, '_seq'):
                l._seq = None
            return None
        if name == 'update' and l.isset:
            other = args[0]
            if not isinstance(other, ListObj):
                raise OutOfSubset("set.update with non-list")
            self.bag_facts(l)
            self.bag_facts(other)
            new = fresh_list('union', l.elem or other.elem, isset=True)
            x = z3.Int(fresh_name('ux'))
            self.st.assume(z3.ForAll([x], z3.Select(new.cnt, x) ==
                                     z3.If(z3.Or(z3.Select(l.cnt, x) > 0, z3.Select(other.cnt, x) > 0), 1, 0)))
            self.st.assume(new.n >= l.n)
            self.st.assume(z3.Implies(other.n == 0, new.n == l.n))
            l.cnt, l.n = new.cnt, new.n
            if l.elem is None:
                l.elem = other.elem
            self.bag_facts(l)
            return None
        if name == 'difference' and l.isset:
            other = args[0]
            if isinstance(other, ListObj):
                c = self.list_copy(l)
                c.isset = True
                self.set_minus(c, other)
                return c
        if name == 'issubset':
            other = args[0]
            x = z3.Int(fresh_name('ss'))
            return Sym('bool', z3.ForAll([x], z3.Implies(z3.Select(l.cnt, x) > 0, z3.Select(other.cnt, x) > 0)))
        if name == 'copy':
            return self.list_copy(l)
        raise OutOfSubset(f"list method {name} at line {getattr(node, 'lineno', '?')}")

    def dict_method(self, d, name, args, node):
        if name == 'keys':
            return d
        if name == 'pop':
            self.dict_pop(d, args[0], node, len(args) > 1)
            return Opaque('popped')
        if name == 'get':
            return self.dict_get(d, args[0], node, default=args[1] if len(args) > 1 else None)
        if name == 'items':
            l = fresh_list('items', 'pair:any,any')
            self.st.assume(l.n == d.nk)
            return l
        raise OutOfSubset(f"dict method {name}")

    def call_builtin(self, name, args, kwargs, node):
        if name == 'len':
            v = args[0]
            if isinstance(v, ListObj):
                self.bag_facts(v)
                return Sym('num', z3.ToReal(v.n), isint=True)
            if isinstance(v, DictObj):
                return Sym('num', z3.ToReal(v.nk), isint=True)
            if isinstance(v, (PyList, TupleV)):
                return len(v.items)
            if isinstance(v, Record):
                return len(v.items)
            if isinstance(v, ObjV):
                fi = self.src.find_method(v.cls, '__len__')
                if fi:
                    return self.call_function(fi, v, [], {}, node)
            if isinstance(v, Sym) and v.kind == 'dframe':
                self.note_assumed('len(pandas.DataFrame) = number of rows')
                r_ = z3.Function('df_rows', I, I)(v.t)
                self.st.assume(r_ >= 0)
                return Sym('num', z3.ToReal(r_), isint=True)
            if isinstance(v, Opaque):
                return Sym('num', z3.Real(fresh_name('len')), isint=True)
            if isinstance(v, Sym) and v.kind == 'ref' and v.cls == 'NpArr':
                return Sym('num', z3.ToReal(z3.Function('np_len', I, I)(v.t)), isint=True)
            raise OutOfSubset(f"len of {type(v).__name__}")
        if name == 'int':
            v = args[0]
            if isinstance(v, (int, float)):
                return int(v)
            if isinstance(v, Sym) and v.kind == 'num' and v.isint:
                return v
            return Sym('num', ztrunc(self.num(v)), isint=True)
        if name == 'float':
            return args[0]
        if name == 'round':
            v = args[0]
            if isinstance(v, (int, float)):
                return round(v)
            return Sym('num', zround(self.num(v)), isint=True)
        if name == 'abs':
            x = self.num(args[0])
            return Sym('num', z3.If(x >= 0, x, -x))
        if name in ('max', 'min'):
            if len(args) == 1:
                return self.extreme_of_collection(name, args[0], kwargs, node)
            if all(isinstance(a, (int, float)) for a in args):
                return max(args) if name == 'max' else min(args)
            acc = self.num(args[0])
            for a in args[1:]:
                acc = zmax(acc, self.num(a)) if name == 'max' else zmin(acc, self.num(a))
            return Sym('num', acc, isint=all(isinstance(a, int) or getattr(a, 'isint', False) for a in args))
        if name == 'str':
            return self.str_of(args[0])
        if name == 'bool':
            return Sym('bool', self.truth(args[0]))
        if name == 'list':
            if not args:
                return empty_list()
            return self.to_list(args[0], node)
        if name == 'set':
            if not args:
                return empty_list(isset=True)
            src = args[0]
            if isinstance(src, ListObj):
                self.bag_facts(src)
                s = fresh_list('set', src.elem, isset=True)
                x = z3.Int(fresh_name('sx'))
                self.st.assume(z3.ForAll([x], z3.Select(s.cnt, x) == z3.If(z3.Select(src.cnt, x) > 0, 1, 0)))
                self.st.assume(s.n <= src.n)
                self.bag_facts(s)
                return s
            raise OutOfSubset("set() of non-list")
        if name == 'dict':
            if not args:
                return self.empty_dict('any')
            if isinstance(args[0], DictObj):
                c = args[0].clone({})
                c.frozen = False
                return c
            raise OutOfSubset("dict() of non-dict")
        if name == 'isinstance':
            v, c = args
            cname = c.what[8:] if isinstance(c, Opaque) and c.what.startswith('builtin:') else (c.name if isinstance(c, ClassV) else None)
            return self.isinstance_(v, cname, node)
        if name == 'sorted':
            v = args[0]
            if isinstance(v, DictObj):
                v = self.to_list(v, node)
            if isinstance(v, ListObj):
                r = self.list_copy(v)     # order is abstracted
                r.isset = False
                r._seq = None             # a sorted copy has its own positions
                if v.isset or getattr(v, 'hash_ordered', False):
                    # sorted(<set>): deterministic only if the key is injective on the elements
                    keynode = None
                    for kw in getattr(node, 'keywords', []):
                        if kw.arg == 'key':
                            keynode = kw.value
                    r.hash_ordered = not self.key_is_injective(keynode)
                return r
            raise OutOfSubset("sorted() of non-list")
        if name == 'print':
            return None
        if name == 'tqdm':
            return Opaque('pbar')
        if name == 'default_rng':
            from contracts.deps import np_default_rng
            self.note_assumed('numpy.random.default_rng')
            return np_default_rng(self, args, node)
        if name == 'sum':
            if isinstance(args[0], tuple) and args[0][0] == 'indicator':
                return Sym('num', z3.ToReal(args[0][1]), isint=True)
            raise OutOfSubset("sum()")
        if name == 'range':
            return ('range', args)
        if name == 'enumerate':
            return ('enumerate', args[0])
        if name == 'super':
            return Opaque('super')
        raise OutOfSubset(f"builtin {name}")

    def key_is_injective(self, keynode):
        """sort key that separates distinct tasks / machines / observations: it is, or contains, the object's unique id or name"""
        if keynode is None or not isinstance(keynode, ast.Lambda):
            return False
        arg = keynode.args.args[0].arg if keynode.args.args else None
        body = keynode.body
        parts = body.elts if isinstance(body, ast.Tuple) else [body]
        for p in parts:
            if isinstance(p, ast.Attribute) and isinstance(p.value, ast.Name) and p.value.id == arg and p.attr in ('id', 'name'):
                return True
        return False

    def isinstance_(self, v, cname, node):
        if cname == 'int':
            if isinstance(v, bool):
                return True
            if isinstance(v, int):
                return True
            if isinstance(v, (float, str)) or v is None:
                return False
            if isinstance(v, Sym) and v.kind == 'any':
                isi = z3.Function('is_pyint', I, B)(v.t)
                # encoding convention: interned strings / enum members have codes >= 10**6 and are never ints
                self.st.assume(z3.Implies(isi, v.t < 1000000))
                return Sym('bool', isi)
            if isinstance(v, Sym) and v.kind == 'num':
                return Sym('bool', z3.BoolVal(v.isint)) if v.isint else Sym('bool', z3.Function('is_pyint_num', R, B)(v.t))
            return False
        if isinstance(v, ObjV):
            return v.cls == cname or cname in [b.split('.')[-1] for b in self.src.bases.get(v.cls, [])]
        if isinstance(v, Sym) and v.kind == 'ref' and v.cls:
            return Sym('bool', z3.And(v.t != 0, z3.BoolVal(v.cls == cname)))
        raise OutOfSubset(f"isinstance({v!r}, {cname})")

    # ================================================================ object creation
    def instantiate(self, cls, args, kwargs, node):
        if cls in self.spec.entities:
            ref = Sym('ref', z3.Int(fresh_name('new_' + cls)), cls)
            self.alloc_fresh(ref)
            fi = self.src.find_method(cls, '__init__')
            if fi is not None:
                self.exec_inline(fi, ref, args, kwargs, node)
            return ref
        if cls in self.src.classes:
            o = ObjV(cls, {}, label=cls)
            fi = self.src.find_method(cls, '__init__')
            if fi is not None:
                self.exec_inline(fi, o, args, kwargs, node)
            return o
        raise OutOfSubset(f"instantiate {cls}")

    def alloc0(self):
        return z3.Const('alloc0', BoolArr)

    def alloc(self):
        return self.st.ghost.setdefault('alloc', self.alloc0())

    def alloc_fresh(self, ref):
        st = self.st
        a = self.alloc()
        st.assume(ref.t > 0)
        st.assume(z3.Not(z3.Select(a, ref.t)))
        st.ghost['alloc'] = z3.Store(a, ref.t, z3.BoolVal(True))
        st.ghost['_last_new'] = ref.t

    def construct(self, cls, args=None, havoc=True, label=None):
        """build an actor object by executing its real __init__ on symbolic arguments, then havoc every leaf"""
        b = getattr(self.spec, 'builders', {}).get(cls)
        if b is not None and args is None:
            return b(self)
        params = self.spec.ctor_params.get(cls)
        if params is None:
            raise OutOfSubset(f"no constructor parameter types for {cls}")
        if args is None:
            args = {}
        kw = {}
        for p, ty in params.items():
            if p in args:
                kw[p] = args[p]
            elif ty == 'env':
                kw[p] = ENV
            else:
                kw[p] = self.fresh_of_type(ty, f"{cls}.init.{p}")
        o = ObjV(cls, {}, label=label or cls)
        fi = self.src.find_method(cls, '__init__')
        if fi is not None:
            saved = self.cur_contract
            self.cur_contract = None
            self.building = getattr(self, 'building', 0) + 1
            saved_stack = self.fn_stack
            self.fn_stack = list(saved_stack)
            try:
                self.exec_inline(fi, o, [], kw, None)
            finally:
                self.building -= 1
                self.fn_stack = saved_stack
            self.cur_contract = saved
        if havoc:
            self.havoc_object(o, cls)
        return o

    def dict_of_lists_facts(self, d):
        """theory of multisets for every value of a dict of lists (true of real Python lists)"""
        o = z3.Int(fresh_name('dlo'))
        m = z3.Int(fresh_name('dlm'))
        self.st.assume(z3.ForAll([o], z3.And(z3.Select(d.vn, o) >= 0,
                                             z3.Implies(z3.Select(d.vn, o) == 0, z3.Select(d.vcnt, o) == EMPTY_CNT)),
                                 patterns=[z3.Select(d.vn, o)]))
        self.st.assume(z3.ForAll([o, m], z3.And(z3.Select(z3.Select(d.vcnt, o), m) >= 0,
                                                z3.Implies(z3.Select(z3.Select(d.vcnt, o), m) > 0,
                                                           z3.Select(d.vn, o) >= z3.Select(z3.Select(d.vcnt, o), m))),
                                 patterns=[z3.Select(z3.Select(d.vcnt, o), m)]))

    def coerce_types(self, v, path, seen=None):
        """after a real __init__: give the declared container types to still-untyped empty dict / list literals"""
        seen = seen if seen is not None else set()
        if id(v) in seen:
            return
        seen.add(id(v))
        items = v.fields if isinstance(v, ObjV) else v.items if isinstance(v, Record) else None
        if items is None:
            return
        for k in list(items):
            p = f"{v.cls}.{k}" if isinstance(v, ObjV) else f"{path}.{k}"
            x = items[k]
            ty = self.spec.field_types.get(p)
            if isinstance(x, (ObjV, Record)):
                self.coerce_types(x, p, seen)
            elif ty and isinstance(x, DictObj) and ty.startswith('dict:') and z3.is_int_value(z3.simplify(x.nk)) and x.vkind == 'any':
                vt = ty.split('->', 1)[1]
                kind = 'list' if vt.startswith('list:') else vt if vt in ('num', 'bool') else 'ref'
                nd = self.empty_dict(kind)
                if kind == 'list':
                    nd.velem = vt[5:]
                if kind == 'ref':
                    nd.vcls = vt[4:] if vt.startswith('ref:') else vt
                items[k] = nd
            elif ty and isinstance(x, ListObj) and ty.startswith(('list:', 'set:')) and x.elem is None:
                x.elem = ty.split(':', 1)[1]

    def havoc_object(self, o, cls, seen=None):
        seen = seen if seen is not None else set()
        self._havoc(o, cls, seen)

    def _havoc(self, v, path, seen):
        if id(v) in seen:
            return
        seen.add(id(v))
        if isinstance(v, ObjV):
            for k in list(v.fields):
                p = f"{v.cls}.{k}"
                if p in self.spec.const_fields:
                    continue
                v.fields[k] = self._havoc_leaf(v.fields[k], p, seen)
        elif isinstance(v, Record):
            for k in list(v.items):
                p = f"{path}.{k}"
                if p in self.spec.const_fields:
                    continue
                v.items[k] = self._havoc_leaf(v.items[k], p, seen)

    def _havoc_leaf(self, x, path, seen):
        ty = self.spec.field_types.get(path)
        if isinstance(x, (ObjV, Record)):
            self._havoc(x, path, seen)
            return x
        if ty is not None:
            if isinstance(x, ListObj) and ty.startswith(('list:', 'set:')):
                x.elem = ty.split(':', 1)[1]
            else:
                return self.fresh_of_type(ty, path)
        if isinstance(x, ListObj):
            if id(x) in seen:
                return x
            seen.add(id(x))
            x.cnt = z3.Const(fresh_name(path + '.cnt'), IntArr)
            x.n = z3.Int(fresh_name(path + '.n'))
            x.initial = True
            self.bag_facts(x)
            if x.elem and (x.elem in self.spec.entities):
                q = z3.Int(fresh_name('al'))
                self.st.assume(z3.ForAll([q], z3.Implies(z3.Select(x.cnt, q) > 0, z3.And(q > 0, z3.Select(self.alloc0(), q))),
                                         patterns=[z3.Select(x.cnt, q)]))
            return x
        if isinstance(x, DictObj):
            if id(x) in seen:
                return x
            seen.add(id(x))
            x.keys = z3.Const(fresh_name(path + '.keys'), BoolArr)
            x.nk = z3.Int(fresh_name(path + '.nk'))
            self.st.assume(x.nk >= 0)
            kty = (ty or '')[5:].split('->')[0] if (ty or '').startswith('dict:') else ''
            if kty in self.spec.entities:
                q = z3.Int(fresh_name('dk'))
                self.st.assume(z3.ForAll([q], z3.Implies(z3.Select(x.keys, q), z3.And(q > 0, z3.Select(self.alloc0(), q))),
                                         patterns=[z3.Select(x.keys, q)]))
            if x.vkind == 'list' or (ty or '').endswith('->list'):
                x.vcnt = z3.Const(fresh_name(path + '.vcnt'), z3.ArraySort(I, IntArr))
                x.vn = z3.Const(fresh_name(path + '.vn'), IntArr)
                self.dict_of_lists_facts(x)
            elif x.vkind == 'num':
                x.vals = z3.Const(fresh_name(path + '.vals'), z3.ArraySort(I, R))
            elif x.vkind == 'bool':
                x.vals = z3.Const(fresh_name(path + '.vals'), BoolArr)
            else:
                x.vals = z3.Const(fresh_name(path + '.vals'), IntArr)
            return x
        if isinstance(x, bool):
            return Sym('bool', z3.Bool(fresh_name(path)))
        if isinstance(x, (int, float)):
            return Sym('num', z3.Real(fresh_name(path)))
        if isinstance(x, Sym):
            if x.kind == 'enum':
                return self.fresh_enum(x.cls, path)
            if x.kind == 'num':
                return Sym('num', z3.Real(fresh_name(path)))
            if x.kind == 'bool':
                return Sym('bool', z3.Bool(fresh_name(path)))
            return Sym(x.kind, z3.Int(fresh_name(path)), x.cls)
        if isinstance(x, EnumConst):
            return self.fresh_enum(x.cls, path)
        if isinstance(x, PyList):
            return x
        return x    # None, str, Opaque, EnvV: kept

    # ================================================================ in-tree function calls
    def call_function(self, fi, selfv, args, kwargs, node):
        c = self.spec.contracts.get(fi.qual)
        if fi.is_generator:
            vals = self.bind(fi, selfv, args, dict(kwargs), node)
            return GenV(fi.qual, selfv, vals, node)
        if c is not None and not c.inline:
            vals = self.bind(fi, selfv, args, dict(kwargs), node)
            return self.apply_contract(c, fi, vals, node)
        if c is None and not self.spec_allows_inline(fi):
            raise OutOfSubset(f"call to {fi.qual} which has no contract (line {getattr(node, 'lineno', '?')})")
        return self.exec_inline(fi, selfv, args, kwargs, node)

    def spec_allows_inline(self, fi):
        return fi.qual in getattr(self.spec, 'inline_ok', set()) or fi.node.name == '__init__'

    def call_abstract(self, recv, name, args, kwargs, node):
        c = self.spec.contracts.get(f"{recv.cls}.{name}")
        if c is None:
            raise OutOfSubset(f"abstract method {recv.cls}.{name} without contract")
        vals = {'self': recv}
        pn = [p for p in c.params if p != 'self']
        for p, a in zip(pn, args):
            vals[p] = a
        for k, v in kwargs.items():
            vals[k] = v
        return self.apply_contract(c, None, vals, node)

    def exec_inline(self, fi, selfv, args, kwargs, node):
        self.call_depth += 1
        if self.call_depth > 12:
            raise OutOfSubset("call depth")
        vals = self.bind(fi, selfv, args, dict(kwargs), node)
        saved_locals = self.st.locals
        saved_seek = self.seek
        self.seek = None
        self.st.locals = vals
        self.fn_stack.append(fi)
        try:
            self.exec_block(fi.node.body)
            ret = None
        except ReturnSig as r:
            ret = r.value
        finally:
            self.fn_stack.pop()
            self.st.locals = saved_locals
            self.seek = saved_seek
            self.call_depth -= 1
        return ret

    # ---------------------------------------------------------------- contracts at call sites
    def snapshot(self, names):
        """clone the current state; returns SV over the clone with the named values mapped into it"""
        s = self.st.clone()
        memo = s._memo
        mapped = {k: memo_clone(v, memo) for k, v in names.items()}
        return SV(self, s, mapped)

    def apply_contract(self, c, fi, vals, node):
        if not c.assumed and c.qual not in self.used_contracts:
            self.used_contracts.append(c.qual)
        for p, v in c.fix.items():
            if p in vals and vals[p] != v:
                a = vals[p]
                if isinstance(v, str) and isinstance(a, Sym) and z3.is_int_value(a.t) and a.t.as_long() == STRINGS.intern(v):
                    continue        # the same interned string constant
                self.oblige(f"pre:{c.qual}:fixed-param:{p}", 'pre', False, node)
        old = self.snapshot(vals)
        caller = self.fn_stack[-1].qual if self.fn_stack else '?'
        site = f"{caller}:{self.site(node)}"
        ctx = Ctx(self, old, old)
        if c.requires:
            for nm, cl in c.requires(ctx):
                if not nm.startswith('assume:'):
                    self.oblige(f"pre:{c.qual}@{site}:{nm}", 'pre', cl, node)
                self.st.assume(hyp_of(cl))
        if c.invariants is True and not c.assumed and not getattr(self, 'building', 0):
            # the callee was verified assuming the class invariants of its receiver and the heap invariants on entry: they are
            # obligations of the caller here (they are assumed again after the call only because the callee preserves them)
            from .driver import invariant_clauses
            for nm, cl in invariant_clauses(self.spec, self, old, dict(old._names)):
                self.oblige(f"pre:{c.qual}@{site}:inv:{nm}", 'pre', cl, node)
                self.st.assume(hyp_of(cl))
        # exceptional behaviours
        for exc, r in c.raises.items():
            when = r.get('when')
            w = when(ctx) if when else z3.Bool(fresh_name('mayraise'))
            if getattr(self, 'building', 0):
                self.st.assume(z3.Not(w))
            elif self.declares_raise(exc) or self.in_try_for(exc):
                if self.branch(w):
                    if not r.get('unchanged', True):
                        self.havoc_modifies(c, vals)
                        if c.invariants and not c.assumed:
                            # the callee re-establishes its invariants on this exceptional exit too (its own obligation)
                            from .driver import invariant_clauses
                            nv = SV(self, self.st, vals)
                            for nm, cl in invariant_clauses(self.spec, self, nv, dict(vals)):
                                self.st.assume(hyp_of(cl))
                    raise RaiseSig(exc, node=node)
            else:
                self.oblige(f"exc:{caller}:{exc}:raised-by-{c.qual}@{self.site(node)}", 'exc', z3.Not(w), node)
                self.st.assume(z3.Not(w))
        self.havoc_modifies(c, vals)
        result = None
        if c.result and c.result != 'none':
            result = self.fresh_of_type(c.result, f"res_{c.qual}")
        new = SV(self, self.st, vals)
        ctx2 = Ctx(self, old, new, V(self, self.st, result))
        if c.ensures:
            for nm, cl in c.ensures(ctx2):
                self.st.assume(hyp_of(cl))
        if c.invariants and not c.assumed:
            # the callee preserves the class invariants of its world and the heap invariants
            from .driver import invariant_clauses
            for nm, cl in invariant_clauses(self.spec, self, new, dict(vals)):
                self.st.assume(hyp_of(cl))
        if c.assumed:
            self.note_assumed(c.qual)
        if c.effect:
            r2 = c.effect(self, vals, result)
            if r2 is not None:
                result = r2
        return result

    def in_try_for(self, exc):
        return False

    def resolve_loc(self, spec, vals):
        """location spec -> (container, key) | ListObj | DictObj | ('heap', cls, field) | ('ghost', name)"""
        if spec.startswith('heap:'):
            cls, field = spec[5:].split('.', 1)
            return ('heap', cls, field)
        if spec.startswith('ghost:'):
            return ('ghost', spec[6:])
        if spec == 'now':
            return ('now',)
        parts = spec.split('.')
        root = parts[0]
        if root.startswith('arg:'):
            root = root[4:]
        if root not in vals:
            raise OutOfSubset(f"modifies: unknown root {root} in {spec}")
        cur = vals[root]
        cont, key = None, None
        for p in parts[1:]:
            cont, key = cur, p
            if isinstance(cur, ObjV):
                cur = cur.fields[p]
            elif isinstance(cur, Record):
                k = int(p) if p.lstrip('-').isdigit() and p not in cur.items else p
                key = k
                cur = cur.items[k]
            else:
                raise OutOfSubset(f"modifies path {spec}: cannot descend into {type(cur).__name__}")
        if isinstance(cur, (ListObj, DictObj)):
            return cur
        if cont is None:
            raise OutOfSubset(f"modifies path {spec} names a root")
        return (cont, key)

    def havoc_loc(self, loc, base):
        if isinstance(loc, ListObj):
            if loc.frozen and not isinstance(loc, DictEntryList):
                raise OutOfSubset("callee modifies a list being iterated")
            loc.cnt = z3.Const(fresh_name(base + '.cnt'), IntArr)
            loc.n = z3.Int(fresh_name(base + '.n'))
            self.bag_facts(loc)
            return
        if isinstance(loc, DictObj):
            loc.keys = z3.Const(fresh_name(base + '.keys'), BoolArr)
            loc.nk = z3.Int(fresh_name(base + '.nk'))
            self.st.assume(loc.nk >= 0)
            if loc.vkind == 'list':
                loc.vcnt = z3.Const(fresh_name(base + '.vcnt'), z3.ArraySort(I, IntArr))
                loc.vn = z3.Const(fresh_name(base + '.vn'), IntArr)
                self.dict_of_lists_facts(loc)
            else:
                loc.vals = z3.Const(fresh_name(base + '.vals'), loc.vals.sort())
            return
        if loc[0] == 'heap':
            _, cls, field = loc
            for k in list(self.st.heap):
                if k[0] == cls and (k[1] == field or k[1].startswith(field + '.')):
                    self.st.heap[k] = z3.Const(fresh_name(f"H!{cls}.{k[1]}"), self.st.heap[k].sort())
            if (cls, field) not in self.st.heap:
                # force creation, then replace
                ty = self.field_type(cls, field)
                dummy = Sym('ref', z3.IntVal(1), cls)
                self.heap_read(dummy, field)
                for k in list(self.st.heap):
                    if k[0] == cls and (k[1] == field or k[1].startswith(field + '.')):
                        self.st.heap[k] = z3.Const(fresh_name(f"H!{cls}.{k[1]}"), self.st.heap[k].sort())
            return
        if loc[0] == 'ghost':
            if loc[1] == 'alloc':
                g = self.alloc()
                new = z3.Const(fresh_name('ghost_alloc'), g.sort())
                q = z3.Int(fresh_name('aq'))
                self.st.assume(z3.ForAll([q], z3.Implies(z3.Select(g, q), z3.Select(new, q)), patterns=[z3.Select(g, q)]))
                self.st.ghost['alloc'] = new
                return
            g = self.st.ghost[loc[1]]
            self.st.ghost[loc[1]] = z3.Const(fresh_name('ghost_' + loc[1]), g.sort())
            return
        if loc[0] == 'now':
            self.st.now = z3.Real(fresh_name('now'))
            return
        cont, key = loc
        cur = cont.fields[key] if isinstance(cont, ObjV) else cont.items[key]
        new = self._havoc_leaf(cur, base, set())
        if isinstance(cont, ObjV):
            cont.fields[key] = new
        else:
            cont.items[key] = new

    def havoc_modifies(self, c, vals):
        for spec in c.modifies:
            if spec == 'world':
                self.havoc_world(c.qual)
                continue
            self.havoc_loc(self.resolve_loc(spec, vals), f"{c.qual}.{spec}")

    # ================================================================ loops
    def loop_spec(self, s):
        fi = self.fn_stack[-1]
        loops = fi.loops()
        for i, l in enumerate(loops):
            if l is s:
                return self.spec.loops.get((fi.qual, i))
        return None

    def loop_ctx(self, spec, old, extra):
        names = dict(self.st.locals)
        new = SV(self, self.st, names)
        c = Ctx(self, old, new, None, extra)
        if not getattr(spec, '_wrapped', False):
            # every loop invariant includes the heap invariants (loops may write the entity heap)
            inner = spec.inv
            hinv = getattr(self.spec, 'heap_invariants', [])

            world = 'world' in (spec.modifies or [])

            def inv(cc, inner=inner, hinv=hinv, world=world):
                out = list(inner(cc))
                if world:
                    # a loop that runs the event loop (havocs the world) keeps every class invariant of the actors
                    from .driver import invariant_clauses
                    out += invariant_clauses(self.spec, self, cc.n, dict(cc.n._names), heap=False)
                for hi in hinv:
                    out += [(f"heap.{nm}", cl) for nm, cl in hi(cc.n)]
                return out
            spec.inv = inv
            spec._wrapped = True
        return c

    def probe_value(self, label, v):
        pr = getattr(self, 'probes', None)
        if pr is None or not isinstance(v, Sym):
            return
        pr['elem:' + label] = v.t
        if v.kind == 'ref' and v.cls in self.spec.entities:
            for f, ty in self.spec.entities[v.cls].items():
                if ty in ('num', 'int', 'bool', 'str', 'any', 'optnum') or ty.startswith('enum:'):
                    try:
                        pr[f"elem:{label}.{f}"] = self.heap_read(v, f).t
                    except Exception:
                        pass

    def loop_frame(self, spec, name, start, node):
        """everything the loop does not declare in modifies / modifies_locals is unchanged by one iteration"""
        from .frames import walk_leaves, leaf_equal
        names = {k: v for k, v in self.st.locals.items() if k in start._names}
        new_leaves, new_ids = walk_leaves(names)
        old_leaves, _ = walk_leaves(start._names)
        covered = set()
        for ms in spec.modifies:
            loc = self.resolve_loc(ms, self.st.locals)
            if isinstance(loc, (ListObj, DictObj)):
                p = new_ids.get(id(loc))
                if p:
                    covered.add(p)
            elif isinstance(loc, tuple) and loc[0] in ('heap', 'ghost', 'now'):
                covered.add(':'.join(loc))
            else:
                cont, key = loc
                p = new_ids.get(id(cont))
                if p:
                    covered.add(f"{p}.{key}")
        skip_roots = set(spec.modifies_locals)
        for path, ov in old_leaves.items():
            root = path.split('.')[0]
            if path in covered or root in skip_roots:
                continue
            nv = new_leaves.get(path, NotImplemented)
            if nv is NotImplemented:
                continue
            eq = leaf_equal(ov, nv)
            if eq is True:
                continue
            self.oblige(f"loop-frame:{name}:{path}", 'frame', eq if eq is not False else False, node)
        oh = start._s.heap
        for k, arr in self.st.heap.items():
            if f"heap:{k[0]}:{k[1].split('.')[0]}" in covered:
                continue
            o = oh.get(k)
            if o is None:
                o = z3.Const(f"H0!{k[0]}.{k[1]}", arr.sort())
            if not o.eq(arr):
                self.oblige(f"loop-frame:{name}:heap:{k[0]}.{k[1]}", 'frame', o == arr, node)

    def containers_at_iteration_start(self):
        return {k: (id(v), bool(getattr(v, 'frozen', False))) for k, v in self.st.locals.items() if isinstance(v, (ListObj, DictObj))}

    def check_no_container_escapes_across_iterations(self, alias0, node):
        """Entity fields hold containers by value in this encoding, Python by reference.  A local container that was NOT
        re-bound in this iteration (same object at its end as at its start) and was stored into an object field during it is
        still reachable through the local in the next iteration: a mutation there would also change the object field, which
        the encoding cannot see.  Such a loop body is outside the subset."""
        for k, v in self.st.locals.items():
            if isinstance(v, (ListObj, DictObj)) and k in alias0 and alias0[k][0] == id(v) and getattr(v, 'frozen', False) \
                    and not alias0[k][1] and not getattr(v, 'iter_frozen', False):
                raise OutOfSubset(f"the container `{k}` is stored into an object field inside a loop without being re-created in "
                                  f"that iteration (aliasing across iterations is not modelled), line {getattr(node, 'lineno', '?')}")

    def cut_loop(self, s, spec):
        """while-loop cut at its invariant; spec.modifies may contain 'world' (everything reachable + heap + time)"""
        fi = self.fn_stack[-1]
        name = f"{fi.qual}:loop{spec.ordinal}"
        pre_loop = self.snapshot(dict(self.st.locals))
        c = self.loop_ctx(spec, pre_loop, {'pre': pre_loop})
        for nm, cl in spec.inv(c):
            self.oblige(f"loop-init:{name}:{nm}", 'loop-init', cl, s)
        for ln in spec.modifies_locals:
            if ln in self.st.locals:
                cur = self.st.locals[ln]
                if isinstance(cur, (ListObj, DictObj)):
                    self.havoc_loc(cur, f"{name}.{ln}")
                else:
                    self.st.locals[ln] = self._havoc_leaf(cur, f"{name}.{ln}", set())
        for ms in spec.modifies:
            if ms == 'world':
                self.havoc_world(name)
            else:
                self.havoc_loc(self.resolve_loc(ms, self.st.locals), f"{name}.{ms}")
        c = self.loop_ctx(spec, pre_loop, {'pre': pre_loop})
        for nm, cl in spec.inv(c):
            self.st.assume(hyp_of(cl))
        cond = self.cond(s.test)
        if self.branch(cond):
            alias0 = self.containers_at_iteration_start()
            try:
                self.exec_block(s.body)
            except ContinueSig:
                pass
            except BreakSig:
                return
            self.check_no_container_escapes_across_iterations(alias0, s)
            c2 = self.loop_ctx(spec, pre_loop, {'pre': pre_loop})
            for nm, cl in spec.inv(c2):
                self.oblige(f"loop-step:{name}:{nm}", 'loop-step', cl, s)
            raise PathEnd('loop-back')
        self.exec_block(s.orelse)

    def havoc_world(self, base):
        """everything any process may change: every leaf of the actors, the entity heap, the pending-spawn ghosts, time"""
        seen = set()
        saved_const = set(self.spec.const_fields)
        self.spec.const_fields |= set(getattr(self.spec, 'run_const', ()))     # fields no process writes (scan obligation)
        try:
            for k, v in list(self.st.locals.items()):
                if isinstance(v, ObjV):
                    self._havoc(v, v.cls, seen)
        finally:
            self.spec.const_fields = saved_const
        for k in list(self.st.heap):
            self.st.heap[k] = z3.Const(fresh_name(f"H!{k[0]}.{k[1]}"), self.st.heap[k].sort())
        for g in list(self.st.ghost):
            if g.startswith('_') or g == 'alloc':
                continue
            self.st.ghost[g] = z3.Const(fresh_name('ghost_' + g), self.st.ghost[g].sort())
        old_now = self.st.now
        self.st.now = z3.Real(fresh_name('now'))
        self.st.assume(z3.IsInt(self.st.now))
        self.st.assume(self.st.now >= old_now)

    def cut_for(self, s, it, spec):
        """for-loop over a multiset / range, cut at its invariant (DESIGN 5.4)"""
        fi = self.fn_stack[-1]
        name = f"{fi.qual}:loop{spec.ordinal}"
        pre_loop = self.snapshot(dict(self.st.locals))
        kind = 'bag'
        idx_name = None
        tgt = s.target
        if isinstance(it, tuple) and it[0] == 'range':
            kind = 'range'
            ra = it[1]
            lo = z3.RealVal(0) if len(ra) == 1 else self.num(ra[0])
            hi = self.num(ra[-1])
        elif isinstance(it, tuple) and it[0] == 'enumerate':
            kind = 'enum'
            it = it[1]
            if not (isinstance(tgt, ast.Tuple) and len(tgt.elts) == 2):
                raise OutOfSubset("enumerate target")
            idx_name, tgt = tgt.elts[0].id, tgt.elts[1]
        if kind in ('bag', 'enum'):
            if isinstance(it, DictObj):
                it = self.to_list(it, s)
            if not isinstance(it, ListObj):
                raise OutOfSubset(f"for over {type(it).__name__}")
            if (it.isset or getattr(it, 'hash_ordered', False)) and not getattr(spec, 'order_independent', False):
                # C10: the iteration order of a set of objects depends on the interpreter's hash seed
                self.oblige(f"det:{fi.qual}:C10-iteration-order-independent-of-the-hash-seed@{self.site(s.iter)}", 'det', False, s)
            self.bag_facts(it)
            was_frozen = it.frozen
            it.frozen = True
            vis = empty_list(it.elem)
        # --- invariant on entry
        if kind == 'range':
            i0 = lo
            extra = {'i': i0, 'lo': lo, 'hi': hi, 'pre': pre_loop}
        else:
            extra = {'visited': vis, 'iter': it, 'pre': pre_loop}
        c = self.loop_ctx(spec, pre_loop, extra)
        for nm, cl in spec.inv(c):
            self.oblige(f"loop-init:{name}:{nm}", 'loop-init', cl, s)
        # --- havoc
        for ln in spec.modifies_locals:
            cur = self.st.locals.get(ln)
            if cur is None and ln not in self.st.locals:
                continue        # assigned only inside the body: dead after the loop
            if isinstance(cur, (ListObj, DictObj)):
                self.havoc_loc(cur, f"{name}.{ln}")
            else:
                self.st.locals[ln] = self._havoc_leaf(cur, f"{name}.{ln}", set())
        for ms in spec.modifies:
            loc = self.resolve_loc(ms, self.st.locals)
            self.havoc_loc(loc, f"{name}.{ms}")
            et = getattr(spec, 'elem_types', {}).get(ms)
            if et and isinstance(loc, ListObj):
                loc.elem = et
            if ms in getattr(spec, 'positions', ()) and isinstance(loc, ListObj):
                loc.track_pos = True
            if et and isinstance(loc, DictObj) and et.endswith('->num') and loc.vkind != 'num':
                loc.vkind = 'num'
                loc.vals = z3.Const(fresh_name(f"{name}.{ms}.vals"), z3.ArraySort(I, R))
        if kind == 'range':
            i = z3.Real(fresh_name('i'))
            self.st.assume(z3.IsInt(i))
            self.st.assume(i >= lo)
            self.st.assume(z3.Or(i <= hi, i == lo))
            extra = {'i': i, 'lo': lo, 'hi': hi, 'pre': pre_loop}
        else:
            vis = fresh_list('visited', it.elem)
            x = z3.Int(fresh_name('vx'))
            self.st.assume(z3.ForAll([x], z3.And(z3.Select(vis.cnt, x) >= 0, z3.Select(vis.cnt, x) <= z3.Select(it.cnt, x)),
                                     patterns=[z3.Select(vis.cnt, x)]))
            self.st.assume(z3.And(vis.n >= 0, vis.n <= it.n))
            self.st.assume(z3.Implies(vis.n == it.n, vis.cnt == it.cnt))
            self.st.assume(z3.Implies(vis.n == 0, vis.cnt == EMPTY_CNT))
            extra = {'visited': vis, 'iter': it, 'pre': pre_loop}
        c = self.loop_ctx(spec, pre_loop, extra)
        for nm, cl in spec.inv(c):
            self.st.assume(hyp_of(cl))
        iter_start = self.snapshot(dict(self.st.locals))
        # --- one more iteration, or exit
        more = (i < hi) if kind == 'range' else (vis.n < it.n)
        if self.branch(more):
            if kind == 'range':
                self.assign(tgt, Sym('num', i, isint=True))
            else:
                e = z3.Int(fresh_name('elem'))
                self.st.assume(z3.Select(vis.cnt, e) < z3.Select(it.cnt, e))
                if getattr(spec, 'ordered', False):
                    # a Python for-loop visits a list in position order: the visited part is the prefix, this item is the next one
                    AT = z3.Function('at', I, I, I)
                    self.seq_facts(it)
                    self.st.assume(e == AT(it.seq, vis.n))
                if idx_name:
                    self.st.locals[idx_name] = Sym('num', z3.ToReal(vis.n), isint=True)
                ev_ = self.elem_value(it, e)
                self.assign(tgt, ev_)
                self.probe_value(ast.unparse(tgt), ev_)
            broke = False
            n_spawns0 = len(self.st.spawns)
            alias0 = self.containers_at_iteration_start()
            try:
                self.exec_block(s.body)
            except ContinueSig:
                pass
            except BreakSig:
                broke = True
            self.check_no_container_escapes_across_iterations(alias0, s)
            if broke:
                if kind != 'range':
                    it.frozen = was_frozen
                return
            if kind == 'range':
                extra2 = {'i': i + 1, 'lo': lo, 'hi': hi, 'pre': pre_loop}
            else:
                vis2 = ListObj(z3.Store(vis.cnt, e, z3.Select(vis.cnt, e) + 1), vis.n + 1, it.elem)
                extra2 = {'visited': vis2, 'iter': it, 'pre': pre_loop}
            self.loop_frame(spec, name, iter_start, s)
            extra2['last_new'] = self.st.ghost.get('_last_new')
            extra2['spawns'] = list(self.st.spawns[n_spawns0:])
            extra2['iter_start'] = iter_start
            c2 = self.loop_ctx(spec, pre_loop, extra2)
            for nm, cl in spec.inv(c2):
                self.oblige(f"loop-step:{name}:{nm}", 'loop-step', cl, s)
            if spec.body:
                for nm, cl in spec.body(c2):
                    self.oblige(f"loop-body:{name}:{nm}", 'post', cl, s)
            raise PathEnd('loop-back')
        # exit
        if kind != 'range':
            it.frozen = was_frozen
            self.st.assume(vis.cnt == it.cnt)
        else:
            self.st.assume(z3.Or(i == hi, z3.And(i == lo, hi < lo)))
        self.exec_block(s.orelse)
