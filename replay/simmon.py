"""Bounded native stand-in: small real simulations of the code under TOPSIM_REPO with property oracles evaluated after every
timestep.  Used (a) as the fallback when an obligation of a changed tree is undecided by the solvers and (b) at the thorough
tier.  It is a bounded exploration, labelled as such, and is never counted among the discharged obligations.

Scope: the scenarios of SCENARIOS below x {QueueProcessing, BatchProcessing(partitions 2, min 1)} x workflow shapes."""
import json
import math
import os
import shutil
import sys
import tempfile
import traceback

os.environ.setdefault('TQDM_DISABLE', '1')
import warnings
warnings.filterwarnings('ignore')

WORKFLOWS = {
    'chain': {'nodes': [{'id': 0, 'comp': 2}, {'id': 1, 'comp': 3, 'task_data': 2}, {'id': 2, 'comp': 1}], 'edges': [(0, 1, 2), (1, 2, 1)]},
    'fork': {'nodes': [{'id': 0, 'comp': 2}, {'id': 1, 'comp': 2}, {'id': 2, 'comp': 4}], 'edges': [(0, 1, 1), (0, 2, 3)]},
    'diamond': {'nodes': [{'id': 0, 'comp': 1, 'task_data': 3}, {'id': 1, 'comp': 4}, {'id': 2, 'comp': 2}, {'id': 3, 'comp': 2}],
                'edges': [(0, 1, 2), (0, 2, 6), (1, 3, 1), (2, 3, 4)]},
    'single': {'nodes': [{'id': 0, 'comp': 3}], 'edges': []},
    'triangle': {'nodes': [{'id': 0, 'comp': 2}, {'id': 1, 'comp': 2, 'task_data': 3}, {'id': 2, 'comp': 1}], 'edges': [(0, 1, 1), (1, 2, 2), (0, 2, 4)]},
    'mixed': {'nodes': [{'id': 0, 'comp': 0}, {'id': 1, 'comp': 1, 'task_data': 5}, {'id': 2, 'comp': 2}, {'id': 3, 'comp': 1}],
              'edges': [(0, 2, 1), (1, 2, 2)]},
}
MACHINES = {'m0': (1, 1), 'm1': (2, 1), 'm2': (1, 2), 'm3': (4, 4)}
MACHINES_TWIN = {'m0': (1, 1), 'm1': (2, 1), 'm2': (2, 1), 'm3': (4, 4)}     # m1 and m2 have identical specifications
SCENARIOS = [
    dict(name='one', obs=[('a', 0, 3, 18, 2, 1)]),
    dict(name='overlap', obs=[('a', 0, 6, 18, 2, 1), ('b', 2, 2, 18, 3, 1)]),
    dict(name='same-start', obs=[('a', 1, 3, 10, 2, 1), ('b', 1, 2, 10, 1, 1)], max_ingest=2),
    dict(name='back-to-back', obs=[('a', 0, 2, 36, 3, 2), ('b', 2, 3, 36, 2, 1), ('c', 5, 2, 18, 4, 1)]),
    dict(name='late', obs=[('a', 4, 2, 20, 5, 1), ('b', 9, 3, 20, 1, 2)]),
    dict(name='same-start-3', obs=[('a', 1, 3, 10, 2, 1), ('b', 1, 2, 10, 1, 1), ('c', 1, 2, 10, 1, 1)], max_ingest=2),
    dict(name='arrays-contended', obs=[('a', 0, 4, 36, 2, 1), ('b', 2, 3, 36, 1, 1)]),
    # b falls due while a's data (half the hot buffer: no tier move) is still resident: b has to wait for a's workflow;
    # c falls due much later, in a completely idle system
    dict(name='blocked-admission', obs=[('a', 0, 5, 10, 10, 1), ('b', 5, 6, 10, 10, 1), ('c', 60, 2, 10, 1, 1)], max_ingest=3,
         hot=(100, 10), cold=(200, 10)),
    # F7 (recorded known finding): each of two overlapping observations fits the free space it sees at admission, together they do not
    dict(name='tight-hot-overlap', obs=[('a', 0, 5, 10, 4, 1), ('b', 1, 5, 10, 4, 1)], hot=(30, 10)),
    # F9 (recorded known finding): two observations due in the same step are both admitted against the same 4 available machines
    # (3 + 2 machines within the ingest limit 5); the second provisioning raises RuntimeError and the run dies
    dict(name='same-start-short-of-machines', obs=[('a', 1, 3, 10, 2, 3), ('b', 1, 2, 10, 1, 2)], max_ingest=5, run_failure_is='C08'),
]


def mkcfg(d, obs, wf, machines=MACHINES, hot=(200, 10), cold=(200, 10), max_ingest=2, timestep='seconds'):
    os.makedirs(d, exist_ok=True)
    g = {"directed": True, "multigraph": False, "graph": {}, "nodes": wf['nodes'],
         "edges": [{"source": s, "target": t, "transfer_data": v} for s, t, v in wf['edges']]}
    g["links"] = g["edges"]
    json.dump({"header": {}, "graph": g}, open(os.path.join(d, 'wf.json'), 'w'))
    o = [dict(name=n, start=s, duration=du, instrument_demand=dm, data_product_rate=r) for n, s, du, dm, r, _ in obs]
    pl = {n: {"workflow": "wf.json", "ingest_demand": ing} for n, s, du, dm, r, ing in obs}
    cfg = {"instrument": {"telescope": {"total_arrays": 36, "max_ingest_resources": max_ingest, "pipelines": pl, "observations": o}},
           "cluster": {"header": {}, "system": {"resources": {k: {"flops": v[0], "compute_bandwidth": v[1]} for k, v in machines.items()},
                                                "system_bandwidth": 1.0}},
           "buffer": {"hot": {"capacity": hot[0], "max_ingest_rate": hot[1]}, "cold": {"capacity": cold[0], "max_data_rate": cold[1]}},
           "timestep": timestep}
    p = os.path.join(d, 'sim.json')
    json.dump(cfg, open(p, 'w'))
    return p


class Run:
    """one monitored simulation"""
    def __init__(self, scenario, wfname, alg):
        import simpy
        from topsim.core.simulation import Simulation
        from topsim.user.telescope import Telescope
        from topsim.user.plan.batch_planning import BatchPlanning
        from topsim.user.schedule.batch_allocation import BatchProcessing
        from topsim.user.schedule.queue_allocation import QueueProcessing
        from topsim.core import task as task_mod
        self.tag = f"{scenario['name']}/{wfname}/{alg}"
        self.dir = tempfile.mkdtemp(prefix='topsim-simmon-', dir=os.environ.get('VERIF_SCRATCH', '/var/tmp'))
        self.wf = WORKFLOWS[wfname]
        self.obs = scenario['obs']
        p = mkcfg(self.dir, self.obs, self.wf, max_ingest=scenario.get('max_ingest', 2), hot=scenario.get('hot', (200, 10)),
                  cold=scenario.get('cold', (200, 10)))
        self.due_idle = None
        self.run_failure_is = scenario.get('run_failure_is', 'RUN')     # which property an aborted run is a violation of
        self.env = simpy.Environment()
        sched = BatchProcessing(min_resources_per_workflow=1, max_resource_partitions=2) if alg == 'batch' else QueueProcessing()
        self.sim = Simulation(self.env, p, Telescope, BatchPlanning('batch'), 'batch', sched, timestamp=0)
        self.fail = []
        self.exec_on = {}       # machine id -> set of running task ids
        self.exec_count = {}
        self.starts = {}
        run = self
        orig = task_mod.Task.do_work

        def do_work(self_, env, machine, predecessor_allocations=None):
            tid = self_.id
            mid = getattr(machine, 'id', None)
            cur = run.exec_on.setdefault(mid, set())
            if cur:
                run.fail.append(('C01', f"t={env.now}: machine {mid} starts {tid} while executing {sorted(cur)}"))
            cur.add(tid)
            run.exec_count[tid] = run.exec_count.get(tid, 0) + 1
            run.starts[tid] = (env.now, mid)
            try:
                yield from orig(self_, env, machine, predecessor_allocations)
            finally:
                cur.discard(tid)
        self._orig = (task_mod.Task, orig)
        task_mod.Task.do_work = do_work

    def close(self):
        self._orig[0].do_work = self._orig[1]
        shutil.rmtree(self.dir, ignore_errors=True)

    # ---- per-step oracles
    def step_checks(self):
        sim, now = self.sim, self.env.now
        cl = sim.cluster
        res = cl._resources
        ids = [m.id for m in cl.machines]
        where = {}
        for pool in ('available', 'ingest', 'occupied'):
            for m in res[pool]:
                where.setdefault(m.id, []).append(pool)
        for ob, lst in res['idle'].items():
            for m in lst:
                where.setdefault(m.id, []).append('idle:' + str(ob))
        for i in ids:
            if len(where.get(i, [])) != 1:
                self.fail.append(('C02', f"t={now}: machine {i} is in pools {where.get(i, [])}"))
        u = cl._usage_data
        running = cl._tasks['running']
        nfin = sum(1 for v in cl._tasks['finished'].values() if v)
        if u['running_tasks'] != len(running) or u['finished_tasks'] != nfin or u['available'] != len(ids) - len(running):
            self.fail.append(('C02', f"t={now}: counters {u} but running={len(running)} finished={nfin} machines={len(ids)}"))
        if u['ingest'] != len(res['ingest']):
            self.fail.append(('C12', f"t={now}: ingest counter {u['ingest']} but {len(res['ingest'])} machines on ingest"))
        hot, cold = sim.buffer.hot[0], sim.buffer.cold[0]
        for nm, b in (('hot', hot), ('cold', cold)):
            if not (0 <= b.current_capacity <= b.total_capacity):
                self.fail.append(('C07', f"t={now}: {nm} free space {b.current_capacity} outside [0, {b.total_capacity}]"))
        tel = sim.instrument
        if not (0 <= tel.telescope_use <= tel.total_arrays):
            self.fail.append(('C08', f"t={now}: telescope use {tel.telescope_use} of {tel.total_arrays}"))
        if len(res['ingest']) > tel.max_ingest:
            self.fail.append(('C08', f"t={now}: {len(res['ingest'])} machines on ingest, limit {tel.max_ingest}"))
        # C08: an observation that falls due while the system is completely idle starts exactly on time
        if self.due_idle is not None:
            o_, t_ = self.due_idle
            if o_.status.name == 'WAITING' or getattr(o_, 'ast', None) != t_:
                self.fail.append(('C08', f"t={t_}: observation {o_.name} fell due in a completely idle system but did not start "
                                         f"(status {o_.status.name}, actual start {getattr(o_, 'ast', None)})"))
            self.due_idle = None
        ingesting = any(o.status.name == 'RUNNING' for o in tel.observations)
        if (tel.telescope_use == 0 and not ingesting and len(res['available']) == len(ids) and not res['idle']
                and hot.current_capacity == hot.total_capacity and cold.current_capacity == cold.total_capacity
                and not sim.scheduler.observation_queue and not running):
            for o in tel.observations:
                if o.status.name == 'WAITING' and o.est == now:
                    d_ = tel.pipelines[o.name]['ingest_demand']
                    size_ = o.ingest_data_rate * o.duration
                    if (o.demand <= tel.total_arrays and d_ <= len(ids) and d_ <= tel.max_ingest and size_ < hot.total_capacity
                            and size_ <= cold.total_capacity and o.duration >= 1):
                        self.due_idle = (o, now)
                    break
        nres = len(res['idle'])
        alg = sim.scheduler.algorithm
        if hasattr(alg, 'max_resources_split') and type(alg).__name__ == 'BatchProcessing' and nres > alg.max_resources_split:
            self.fail.append(('C09', f"t={now}: {nres} reservations, at most {alg.max_resources_split} allowed"))
        # queries (C19)
        true_idle = (len(running) == 0 and not res['occupied'] and not res['ingest'])
        if cl.is_idle() != true_idle:
            self.fail.append(('C19', f"t={now}: Cluster.is_idle()={cl.is_idle()} but running={len(running)} occupied={len(res['occupied'])} ingest={len(res['ingest'])}"))
        true_empty = hot.current_capacity == hot.total_capacity and cold.current_capacity == cold.total_capacity
        if sim.buffer.is_empty() != true_empty:
            self.fail.append(('C19', f"t={now}: Buffer.is_empty()={sim.buffer.is_empty()} but hot {hot.current_capacity}/{hot.total_capacity} cold {cold.current_capacity}/{cold.total_capacity}"))
        if sim.scheduler.is_idle() != (len(sim.scheduler.observation_queue) == 0):
            self.fail.append(('C19', f"t={now}: Scheduler.is_idle() wrong"))
        allfin = all(str(o.status) in ('RunStatus.FINISHED', 'FINISHED') or getattr(o.status, 'value', None) == 'FINISHED' for o in tel.observations)
        if tel.is_idle() != (allfin and tel.telescope_use == 0 and not tel.telescope_status):
            self.fail.append(('C19', f"t={now}: Telescope.is_idle()={tel.is_idle()} allfinished={allfin} use={tel.telescope_use}"))
        if sim.is_finished() != (true_idle and true_empty and len(sim.scheduler.observation_queue) == 0 and tel.is_idle()):
            self.fail.append(('C19', f"t={now}: Simulation.is_finished()={sim.is_finished()} disagrees with the four actors"))
        return dict(t=now, free=len(ids) - len(res['ingest']) - len(res['occupied']), ingest=len(res['ingest']), running=len(running),
                    finished=nfin, reservations=nres, hot=hot.current_capacity, cold=cold.current_capacity,
                    stored=len(hot.observations['stored']) + len(cold.observations['stored']), queue=len(sim.scheduler.observation_queue))

    def run(self, horizon=120):
        sim = self.sim
        snaps = []
        try:
            sim.start(1)
            snaps.append(None)
            t = 1
            while t < horizon:
                snaps.append(self.step_checks())        # state at the beginning of timestep t
                if sim.is_finished() and t > max(o[1] for o in self.obs) + 1:
                    break
                t += 1
                sim.resume(t)
        except Exception as e:
            self.fail.append((self.run_failure_is, f"{type(e).__name__}: {e} :: {traceback.format_exc().splitlines()[-3].strip()}"))
            return
        self.final_checks(snaps, t)

    def final_checks(self, snaps, tend):
        sim = self.sim
        df = sim.monitor.df
        # C12: one row per timestep, row t = state at the beginning of t
        if len(df) != self.env.now:
            self.fail.append(('C12', f"{self.env.now} timesteps simulated, table has {len(df)} rows"))
        cols = {'available_resources': 'free', 'ingest_resources': 'ingest', 'running_tasks': 'running', 'finished_tasks': 'finished',
                'provisioned_observations': 'reservations', 'hot_buffer': 'hot', 'cold_buffer': 'cold', 'stored': 'stored',
                'scheduler_observation_queue': 'queue'}
        for t, s in enumerate(snaps):
            if s is None or t >= len(df):
                continue
            for col, key in cols.items():
                if col in df.columns and df.iloc[t][col] != s[key]:
                    self.fail.append(('C12', f"row {t}: {col} reports {df.iloc[t][col]}, true value {s[key]}"))
        finished_run = sim.is_finished()
        # C13: the event log
        ev = sim.monitor.events
        sim.monitor.collate_events()
        ev = sim.monitor.events
        recs = [] if len(ev) == 0 else list(zip(ev['time'], ev['actor'], ev['observation'], ev['event'], ev['resource']))
        if finished_run:
            for (n, s, du, dm, r, ing) in self.obs:
                def times(actor, event, resource):
                    return [x[0] for x in recs if x[1] == actor and x[2] == n and x[3] == event and x[4] == resource]
                kinds = {'started': times('instrument', 'started', 'telescope'), 'finished': times('instrument', 'finished', 'telescope'),
                         'buffer added': times('buffer', 'added', 'buffer'), 'buffer removed': times('buffer', 'removed', 'buffer'),
                         'queue added': times('scheduler', 'added', 'queue'), 'queue removed': times('scheduler', 'removed', 'queue'),
                         'allocation started': times('scheduler', 'started', 'allocation'), 'allocation stopped': times('scheduler', 'stopped', 'allocation')}
                for k, v in kinds.items():
                    if len(v) != 1:
                        self.fail.append(('C13', f"observation {n}: {len(v)} '{k}' entries {v}"))
                if all(len(v) == 1 for v in kinds.values()):
                    k = {a: b[0] for a, b in kinds.items()}
                    if not (k['started'] <= k['queue added'] <= k['allocation started'] <= k['allocation stopped'] <= k['queue removed']):
                        self.fail.append(('C13', f"observation {n}: causal order broken {k}"))
                    if k['finished'] != k['started'] + du or k['buffer added'] != k['started'] or k['buffer removed'] != k['allocation stopped'] or k['started'] < s:
                        self.fail.append(('C13', f"observation {n}: timing wrong {k} (duration {du}, planned start {s})"))
        # C04 / C06 / C03 / C14 on the task table and plans
        if finished_run:
            cl = sim.cluster
            if cl._resources['idle'] or len(cl._resources['available']) != len(cl.machines):
                self.fail.append(('C04', f"finished but idle={cl._resources['idle']} available={len(cl._resources['available'])}"))
            expected = sum(o[5] for o in self.obs) + len(self.obs) * len(self.wf['nodes'])
            tasks = list(cl._tasks['finished'].keys())
            if len(tasks) != expected or any(self.exec_count.get(t.id, 0) != 1 for t in tasks) or len(self.exec_count) != expected:
                self.fail.append(('C04', f"{expected} tasks expected, {len(tasks)} finished, executions {dict(list(self.exec_count.items())[:6])}"))
            byid = {t.id: t for t in tasks}
            speeds = {m.id: (m.cpu, m.bandwidth) for m in cl.machines}
            nodes = {n['id']: n for n in self.wf['nodes']}
            for t in tasks:
                if '_ingest_' in t.id:
                    du = [o[2] for o in self.obs if t.id.startswith(o[0] + '_ingest')][0]
                    if t.aft - t.ast != du:
                        self.fail.append(('C06', f"ingest task {t.id}: aft-ast={t.aft - t.ast}, observation duration {du}"))
                    continue
                mid = self.starts[t.id][1]
                cpu, bw = speeds[mid]
                try:
                    node = nodes.get(t.graph_id)
                except TypeError:
                    node = None
                if node is None:
                    # C14: exactly one task per graph node, carrying that node's identifier
                    self.fail.append(('C14', f"task {t.id}: its graph_id {t.graph_id!r} ({type(t.graph_id).__name__}) is not a node of the workflow "
                                             f"(nodes {sorted(nodes)})"))
                    continue
                if t.flops != node['comp'] or t.task_data != node.get('task_data', 0):
                    self.fail.append(('C14', f"task {t.id}: demands ({t.flops},{t.task_data}) but node says ({node['comp']},{node.get('task_data', 0)})"))
                rt = max(math.floor(node['comp'] / cpu), math.floor(node.get('task_data', 0) / bw))
                if t.aft - t.ast != max(1, rt):
                    self.fail.append(('C06', f"task {t.id} on {mid}: aft-ast={t.aft - t.ast}, expected max(1,{rt})"))
                preds = [s for s, d, v in self.wf['edges'] if d == t.graph_id]
                want_pred = sorted(f"{t.id.rsplit('_', 1)[0]}_{p}" for p in preds)
                if sorted(t.pred) != want_pred:
                    self.fail.append(('C14', f"task {t.id}: predecessors {sorted(t.pred)} but graph says {want_pred}"))
                alloc_t = self.starts[t.id][0]
                arrival = alloc_t
                for (s_, d_, v_) in self.wf['edges']:
                    if d_ != t.graph_id:
                        continue
                    p = byid.get(f"{t.id.rsplit('_', 1)[0]}_{s_}")
                    if p is None:
                        continue
                    if t.ast < p.aft:
                        self.fail.append(('C03', f"task {t.id} started at {t.ast} before predecessor {p.id} finished at {p.aft}"))
                    if self.starts[p.id][1] != mid:
                        arrival = max(arrival, p.aft + v_ / bw)
                    if t.io.get(p.id) != v_:
                        self.fail.append(('C14', f"task {t.id}: transfer volume from {p.id} is {t.io.get(p.id)}, graph says {v_}"))
                if t.ast != arrival:
                    self.fail.append(('C03', f"task {t.id}: recorded start {t.ast}, expected max(allocation {alloc_t}, last arrival) = {arrival}"))
            # C14: the plan's own graph queries agree with the workflow (successors / predecessors of every task)
            for o in sim.instrument.observations:
                plan = getattr(o, 'plan', None)
                if plan is None:
                    continue
                bygid = {t.graph_id: t for t in plan.tasks} if plan.tasks else {t.graph_id: t for t in tasks if t.id.startswith(o.name + '_') and '_ingest_' not in t.id}
                for gid, t in bygid.items():
                    want_s = sorted(d for s_, d, v in self.wf['edges'] if s_ == gid)
                    want_p = sorted(s_ for s_, d, v in self.wf['edges'] if d == gid)
                    try:
                        got_s = sorted(x.graph_id for x in plan.get_task_successors(t))
                        got_p = sorted(x.graph_id for x in plan.get_task_predecessors(t))
                    except Exception as e:
                        self.fail.append(('C14', f"plan of {o.name}: graph query failed for task {t.id}: {type(e).__name__}: {e}"))
                        continue
                    if got_s != want_s or got_p != want_p:
                        self.fail.append(('C14', f"plan of {o.name}, task {t.id}: successors {got_s} / predecessors {got_p}, the workflow says {want_s} / {want_p}"))
            hot, cold = sim.buffer.hot[0], sim.buffer.cold[0]
            if hot.current_capacity != hot.total_capacity or cold.current_capacity != cold.total_capacity:
                self.fail.append(('C07', f"finished but buffers hold data: hot {hot.current_capacity}/{hot.total_capacity}"))
        else:
            self.fail.append(('C05?', f"not finished after {tend} steps (not a verdict: termination is not claimed)"))


def explore(props=None, max_runs=None):
    """returns {'runs': n, 'failures': [(prop, scenario, text)]}"""
    out = []
    n = 0
    for sc in SCENARIOS:
        for wf in WORKFLOWS:
            for alg in ('queue', 'batch'):
                if max_runs and n >= max_runs:
                    break
                n += 1
                try:
                    r = Run(sc, wf, alg)
                except Exception as e:
                    out.append(('RUN', f"{sc['name']}/{wf}/{alg}", f"setup failed: {type(e).__name__}: {e}"))
                    continue
                try:
                    r.run()
                    for p, txt in r.fail:
                        if props is None or p in props or p == 'RUN':
                            out.append((p, r.tag, txt))
                finally:
                    r.close()
    return dict(runs=n, failures=out)


if __name__ == '__main__':
    props = sys.argv[1:] or None
    res = explore(props)
    print(json.dumps(dict(runs=res['runs'], failures=res['failures'][:40], n_failures=len(res['failures'])), indent=1))


# ---------------------------------------------------------------------------------------------------- plan-following policy (C17)
def explore_static(props=None):
    """DynamicSchedulingFromPlan on hand-made static plans (the SHADOW planner is not importable): every task must execute on
    the machine its plan assigned, however long that machine is busy"""
    import simpy
    import networkx as nx
    from topsim.core.simulation import Simulation
    from topsim.user.telescope import Telescope
    from topsim.algorithms.planning import Planning
    from topsim.core.planner import WorkflowPlan, WorkflowStatus
    from topsim.core.task import Task
    from topsim.user.schedule.dynamic_plan import DynamicSchedulingFromPlan
    from topsim.core import task as task_mod

    class StaticPlanning(Planning):
        def __init__(self, assign, wf):
            super().__init__('static')
            self.assign, self.wf = assign, wf

        def __str__(self):
            return 'StaticPlanning'

        def to_df(self):
            pass

        def generate_plan(self, clock, cluster, buffer, observation, max_ingest):
            g = nx.DiGraph()
            for n in self.wf['nodes']:
                g.add_node(n['id'], **{k: v for k, v in n.items() if k != 'id'})
            for s, d, v in self.wf['edges']:
                g.add_edge(s, d, transfer_data=v)
            speeds = {m.id: (m.cpu, m.bandwidth) for m in cluster.machines}
            tasks, mapping, eft = [], {}, {}
            order = list(nx.topological_sort(g))
            for i, node in enumerate(order):
                mid = self.assign(i, node, sorted(speeds))
                cpu, bw = speeds[mid]
                rt = max(1, math.floor(g.nodes[node]['comp'] / cpu), math.floor(g.nodes[node].get('task_data', 0) / bw))
                est = max([eft[p] for p in g.predecessors(node)], default=0)
                eft[node] = est + rt
                tid = f"{observation.name}_{clock}_{node}"
                t = Task(tid, est, eft[node], mid, [f"{observation.name}_{clock}_{p}" for p in g.predecessors(node)],
                         g.nodes[node]['comp'], g.nodes[node].get('task_data', 0),
                         {f"{observation.name}_{clock}_{p}": g.pred[node][p]['transfer_data'] for p in g.pred[node]}, None, gid=node)
                mapping[node] = t
                tasks.append(t)
            return WorkflowPlan(observation.name, 0, max(eft.values(), default=0), tasks, order, WorkflowStatus.SCHEDULED, max_ingest,
                                nx.relabel_nodes(g, mapping))

    assigns = {'all-on-m1': lambda i, n, ms: 'm1', 'round-robin': lambda i, n, ms: ms[i % len(ms)], 'all-on-m0': lambda i, n, ms: 'm0'}
    out, runs = [], 0
    for sc in SCENARIOS[:4]:
        for wfname in ('chain', 'fork', 'diamond', 'mixed'):
            # ONE policy object serves the three runs of this (plan, workflow) pair - an experiment loop over static plans: the task
            # ids are the same in the three runs, the planned machines are not
            policy = DynamicSchedulingFromPlan()
            for an, assign in assigns.items():
                runs += 1
                d = tempfile.mkdtemp(prefix='topsim-simmon-', dir=os.environ.get('VERIF_SCRATCH', '/var/tmp'))
                tag = f"static/{sc['name']}/{wfname}/{an}"
                started = {}
                orig = task_mod.Task.do_work

                def do_work(self_, env, machine, predecessor_allocations=None, _st=started):
                    _st.setdefault(self_.id, []).append((env.now, getattr(machine, 'id', None)))
                    yield from orig(self_, env, machine, predecessor_allocations)
                task_mod.Task.do_work = do_work
                try:
                    p = mkcfg(d, sc['obs'], WORKFLOWS[wfname], machines=MACHINES_TWIN, max_ingest=sc.get('max_ingest', 2))
                    env = simpy.Environment()
                    sim = Simulation(env, p, Telescope, StaticPlanning(assign, WORKFLOWS[wfname]), 'static', policy, timestamp=0)
                    sim.start(400)
                    planned = {}
                    for t in sim.cluster._tasks['finished']:
                        if '_ingest_' not in t.id:
                            planned[t.id] = t
                    nexp = len(sc['obs']) * len(WORKFLOWS[wfname]['nodes'])
                    if not sim.is_finished() or len(planned) != nexp:
                        out.append(('C05?', tag, f"not finished within 400 steps ({len(planned)}/{nexp} workflow tasks done)"))
                    for tid, execs in started.items():
                        if '_ingest_' in tid:
                            continue
                        t = planned.get(tid)
                        if len(execs) != 1:
                            out.append(('C04', tag, f"task {tid} executed {len(execs)} times"))
                        want = assign(WORKFLOWS[wfname]['nodes'].index(next(n for n in WORKFLOWS[wfname]['nodes'] if str(n['id']) == tid.rsplit('_', 1)[1])) if False else 0, 0, ['m0']) if False else None
                    # the planned machine is the one recorded at plan time: recompute it from the assignment rule
                    order = {}
                    import networkx as _nx
                    g = _nx.DiGraph()
                    g.add_nodes_from(n['id'] for n in WORKFLOWS[wfname]['nodes'])
                    g.add_edges_from((s, dd) for s, dd, v in WORKFLOWS[wfname]['edges'])
                    topo = list(_nx.topological_sort(g))
                    ms = sorted(MACHINES)
                    for tid, execs in started.items():
                        if '_ingest_' in tid:
                            continue
                        node = int(tid.rsplit('_', 1)[1])
                        want = assign(topo.index(node), node, ms)
                        for (when, mid) in execs:
                            if mid != want:
                                out.append(('C17', tag, f"task {tid} planned on {want} executed on {mid} at t={when}"))
                except Exception as e:
                    out.append(('RUN', tag, f"{type(e).__name__}: {e}"))
                finally:
                    task_mod.Task.do_work = orig
                    shutil.rmtree(d, ignore_errors=True)
    fails = [f for f in out if props is None or f[0] in props or f[0] == 'RUN']
    return dict(runs=runs, failures=fails)
