"""Replay builders: turn the verifier's model (probe values) into real topsim objects, run the real function and
evaluate the violated clause concretely.  One builder per function under contract that has a native replay."""
from fractions import Fraction
import re

BUILDERS = {}


def builder(name):
    def deco(f):
        BUILDERS[name] = f
        return f
    return deco


class Model:
    def __init__(self, d):
        self.d = d or {}

    def raw(self, label):
        return self.d.get('probe!' + label)

    def num(self, label, default=0):
        v = self.raw(label)
        if v is None:
            return default
        v = v.replace('?', '').strip()
        try:
            f = Fraction(v)
        except Exception:
            m = re.match(r'^\(?\s*-\s*([0-9./]+)\)?$', v)
            if m:
                f = -Fraction(m.group(1))
            else:
                return default
        return int(f) if f.denominator == 1 else float(f)

    def boolean(self, label, default=False):
        v = self.raw(label)
        return default if v is None else v == 'True'

    def has(self, label):
        return ('probe!' + label) in self.d


def simple_env(now=0):
    import simpy
    return simpy.Environment(initial_time=now)


@builder('Task.calculate_runtime')
def _calc_rt(m, ob):
    from topsim.core.task import Task
    from topsim.core.machine import Machine
    import math
    t = Task('t', 0, 0, None, [], flops=m.num('self.flops'), task_data=m.num('self.task_data'))
    mc = Machine('m', m.num('machine.cpu', 1), 1, 1, m.num('machine.bandwidth', 1))
    got = t.calculate_runtime(mc)
    want = max(math.floor(t.flops / mc.cpu), math.floor(t.task_data / mc.bandwidth))
    return dict(violated=got != want, input=dict(flops=t.flops, data=t.task_data, cpu=mc.cpu, bw=mc.bandwidth), got=got, want=want)


@builder('Task.do_work')
def _do_work(m, ob):
    """whole-function replay: a task with the model's demands on a machine with the model's speeds, no predecessors"""
    from topsim.core.task import Task
    from topsim.core.machine import Machine
    import math
    now = int(m.num('now', 0))
    env = simple_env(max(now, 0))
    dur = m.num('self.duration', 0)
    t = Task('t', 0, dur if dur >= 0 else 0, None, [], flops=m.num('self.flops'), task_data=m.num('self.task_data'))
    t.duration = dur
    t.eft = m.num('self.eft', 0)
    mc = Machine('m', m.num('machine.cpu', 1) or 1, 1, 1, m.num('machine.bandwidth', 1) or 1)
    proc = env.process(t.do_work(env, mc, None))
    env.run()
    if t.flops > 0 or t.task_data > 0:
        runtime = max(math.floor(t.flops / mc.cpu), math.floor(t.task_data / mc.bandwidth))
    else:
        runtime = dur
    info = dict(input=dict(flops=t.flops, task_data=t.task_data, duration=dur, cpu=mc.cpu, bandwidth=mc.bandwidth, start=now),
                ast=t.ast, aft=t.aft, runtime=runtime, returned_at=env.now)
    viol = False
    if 'finish-minus-start' in ob:
        viol = (t.aft - t.ast) != max(1, runtime)
        info['clause'] = f"aft - ast = {t.aft - t.ast}, expected max(1, runtime) = {max(1, runtime)}"
    elif 'runtime-formula' in ob:
        viol = (t.flops > 0 or t.task_data > 0) and t.duration != runtime
    elif 'aft-is-return-time-plus-one' in ob:
        viol = t.aft != env.now + 1
    info['violated'] = viol
    return info
