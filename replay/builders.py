"""Replay builders: turn the verifier's model (probe values) into real topsim objects, run the real function and
evaluate the violated clause concretely.  One builder per function under contract that has a native replay."""
from fractions import Fraction
import re

BUILDERS = {}


def builder(name):
    def deco(f):
        BUILDERS[name] = f
        return f
    return deco


class Model:
    def __init__(self, d):
        self.d = d or {}

    def raw(self, label):
        return self.d.get('probe!' + label)

    def num(self, label, default=0):
        v = self.raw(label)
        if v is None:
            return default
        v = v.replace('?', '').strip()
        try:
            f = Fraction(v)
        except Exception:
            m = re.match(r'^\(?\s*-\s*([0-9./]+)\)?$', v)
            if m:
                f = -Fraction(m.group(1))
            else:
                return default
        return int(f) if f.denominator == 1 else float(f)

    def boolean(self, label, default=False):
        v = self.raw(label)
        return default if v is None else v == 'True'

    def has(self, label):
        return ('probe!' + label) in self.d


def simple_env(now=0):
    import simpy
    return simpy.Environment(initial_time=now)


@builder('Task.calculate_runtime')
def _calc_rt(m, ob):
    from topsim.core.task import Task
    from topsim.core.machine import Machine
    import math
    t = Task('t', 0, 0, None, [], flops=m.num('self.flops'), task_data=m.num('self.task_data'))
    mc = Machine('m', m.num('machine.cpu', 1), 1, 1, m.num('machine.bandwidth', 1))
    got = t.calculate_runtime(mc)
    want = max(math.floor(t.flops / mc.cpu), math.floor(t.task_data / mc.bandwidth))
    return dict(violated=got != want, input=dict(flops=t.flops, data=t.task_data, cpu=mc.cpu, bw=mc.bandwidth), got=got, want=want)


@builder('Task.do_work')
def _do_work(m, ob):
    """whole-function replay: a task with the model's demands on a machine with the model's speeds, no predecessors"""
    from topsim.core.task import Task
    from topsim.core.machine import Machine
    import math
    now = int(m.num('now', 0))
    env = simple_env(max(now, 0))
    dur = m.num('self.duration', 0)
    t = Task('t', 0, dur if dur >= 0 else 0, None, [], flops=m.num('self.flops'), task_data=m.num('self.task_data'))
    t.duration = dur
    t.eft = m.num('self.eft', 0)
    mc = Machine('m', m.num('machine.cpu', 1) or 1, 1, 1, m.num('machine.bandwidth', 1) or 1)
    proc = env.process(t.do_work(env, mc, None))
    env.run()
    if t.flops > 0 or t.task_data > 0:
        runtime = max(math.floor(t.flops / mc.cpu), math.floor(t.task_data / mc.bandwidth))
    else:
        runtime = dur
    info = dict(input=dict(flops=t.flops, task_data=t.task_data, duration=dur, cpu=mc.cpu, bandwidth=mc.bandwidth, start=now),
                ast=t.ast, aft=t.aft, runtime=runtime, returned_at=env.now)
    viol = False
    if 'finish-minus-start' in ob:
        viol = (t.aft - t.ast) != max(1, runtime)
        info['clause'] = f"aft - ast = {t.aft - t.ast}, expected max(1, runtime) = {max(1, runtime)}"
    elif 'runtime-formula' in ob:
        viol = (t.flops > 0 or t.task_data > 0) and t.duration != runtime
    elif 'aft-is-return-time-plus-one' in ob:
        viol = t.aft != env.now + 1
    info['violated'] = viol
    return info


# ---------------------------------------------------------------------------------------------------- config (C16)
def _unit_of(m):
    """decode the model's timestep unit: interned-string codes are not available here, so try the documented spellings
    and the integer reading of the model value"""
    return ['minutes', 'hours', 'seconds', 7, 60, 5, 1, 3600]


def _write_cfg(d, unit, obs, machines=None, hot=(100, 10), cold=(100, 10), system_bandwidth=2):
    import json, os
    os.makedirs(d, exist_ok=True)
    cfg = {"instrument": {"telescope": {"total_arrays": 36, "max_ingest_resources": 2,
                                        "pipelines": {o['name']: {"workflow": "wf.json", "ingest_demand": 1} for o in obs},
                                        "observations": obs}},
           "cluster": {"header": {}, "system": {"resources": machines or {"m0": {"flops": 3, "compute_bandwidth": 5}},
                                                "system_bandwidth": system_bandwidth}},
           "buffer": {"hot": {"capacity": hot[0], "max_ingest_rate": hot[1]}, "cold": {"capacity": cold[0], "max_data_rate": cold[1]}},
           "timestep": unit}
    p = os.path.join(d, 'sim.json')
    json.dump(cfg, open(p, 'w'))
    return p, cfg


def _mult(u):
    return 60 if u == 'minutes' else 3600 if u == 'hours' else u if isinstance(u, int) and not isinstance(u, bool) else 1


def _scratch():
    import os, tempfile
    return tempfile.mkdtemp(prefix='topsim-replay-', dir=os.environ.get('VERIF_SCRATCH', '/var/tmp'))


def _config_replay(m, ob, section):
    """C16 oracle evaluated concretely on the real Config for the unit spellings and custom factors;
    the model supplies the numbers of the observation / machine / buffer entry"""
    import copy, shutil
    from topsim.core.config import Config
    start = m.num('elem:observation.start', 120)
    dur = m.num('elem:observation.duration', 240)
    rate = m.num('elem:observation.data_product_rate', 3)
    obs = [{"name": "a", "start": start, "duration": dur, "instrument_demand": 4, "data_product_rate": rate}]
    d = _scratch()
    try:
        for unit in _unit_of(m):
            p, cfg = _write_cfg(d, unit, copy.deepcopy(obs))
            c = Config(p)
            before = copy.deepcopy((c.instrument, c.cluster, c.buffer, c.timestep_unit))
            mu = _mult(unit)
            bad = []
            for rep in (1, 2):          # a second parse of the same Config must give the same answer
                if section == 'instrument':
                    ta, pl, observations, mi = c.parse_instrument_config('telescope')
                    o = observations[0]
                    if o.est != start / mu:
                        bad.append(f"parse {rep}: est={o.est} expected start/mult={start / mu}")
                    if o.duration != dur / mu:
                        bad.append(f"parse {rep}: duration={o.duration} expected {dur / mu}")
                    if o.ingest_data_rate != round(rate * mu):
                        bad.append(f"parse {rep}: rate={o.ingest_data_rate} expected {round(rate * mu)}")
                    if o.demand != 4 or ta != 36 or mi != 2:
                        bad.append(f"parse {rep}: unscaled quantity changed")
                elif section == 'cluster':
                    ml, bw = c.parse_cluster_config()
                    if ml[0].cpu != 3 * mu or ml[0].bandwidth != 5 * mu or ml[0].memory != 1 or ml[0].disk != 1 or bw != 2 * mu:
                        bad.append(f"parse {rep}: cpu={ml[0].cpu} bandwidth={ml[0].bandwidth} system={bw} expected {3 * mu}, {5 * mu}, {2 * mu}")
                else:
                    hot, cold = c.parse_buffer_config()
                    if hot[0].max_ingest_data_rate != 10 * mu or cold[0].max_data_rate != 10 * mu or hot[0].total_capacity != 100 \
                            or cold[0].total_capacity != 100:
                        bad.append(f"parse {rep}: hot rate={hot[0].max_ingest_data_rate} cold rate={cold[0].max_data_rate} expected {10 * mu}")
                after = (c.instrument, c.cluster, c.buffer, c.timestep_unit)
                if after != before:
                    bad.append(f"parse {rep}: the configuration held by Config was modified by parsing")
            if bad:
                return dict(violated=True, unit=unit, observation=obs[0], observed=bad)
        return dict(violated=False, note='no unit / factor reproduced the failure', observation=obs[0])
    finally:
        shutil.rmtree(d, ignore_errors=True)


@builder('Config.parse_instrument_config')
def _cfg_i(m, ob):
    return _config_replay(m, ob, 'instrument')


@builder('Config.parse_cluster_config')
def _cfg_c(m, ob):
    return _config_replay(m, ob, 'cluster')


@builder('Config.parse_buffer_config')
def _cfg_b(m, ob):
    return _config_replay(m, ob, 'buffer')


# ---------------------------------------------------------------------------------------------------- planner (C14)
def _plan_queries(m, ob):
    import networkx as nx
    from topsim.core.planner import WorkflowPlan, WorkflowStatus
    g = nx.DiGraph()
    g.add_edges_from([('a', 'b'), ('a', 'c'), ('b', 'd'), ('c', 'd')])
    g.add_node('e')
    plan = WorkflowPlan('obs', 0, -1, [], list(g.nodes), WorkflowStatus.SCHEDULED, None, g)
    bad = []
    for t in g.nodes:
        if sorted(plan.get_task_predecessors(t)) != sorted(g.predecessors(t)):
            bad.append(f"get_task_predecessors({t!r}) = {sorted(plan.get_task_predecessors(t))}, graph says {sorted(g.predecessors(t))}")
        if sorted(plan.get_task_successors(t)) != sorted(g.successors(t)):
            bad.append(f"get_task_successors({t!r}) = {sorted(plan.get_task_successors(t))}, graph says {sorted(g.successors(t))}")
    return dict(violated=bool(bad), graph="diamond a->b,c->d plus isolated e", observed=bad[:4])


BUILDERS['WorkflowPlan.get_task_predecessors'] = _plan_queries
BUILDERS['WorkflowPlan.get_task_successors'] = _plan_queries


# ---------------------------------------------------------------------------------------------------- buffer tier moves (C18)
def _mk_buffer(m, size):
    import simpy
    from topsim.core.buffer import Buffer, HotBuffer, ColdBuffer
    from topsim.core.instrument import Observation, RunStatus
    env = simple_env(0)
    hcap = m.num('self.hot.0.total_capacity', 100) or 100
    ccap = m.num('self.cold.0.total_capacity', 100) or 100
    hrate = m.num('self.hot.0.max_ingest_data_rate', 3) or 3
    crate = m.num('self.cold.0.max_data_rate', 5) or 5
    b = object.__new__(Buffer)
    b.env = env
    b.hot = {0: HotBuffer(hcap, hrate)}
    b.cold = {0: ColdBuffer(ccap, crate)}
    b._data_left_to_transfer = 0
    b.waiting_observation_list = []
    b.events = []
    b.threshold = 0.6
    b.stored_times = []
    o = Observation('obs', 0, 1, 1, 'wf', 1)
    o.total_data_size = size
    return env, b, o


def _tier_state(b):
    return dict(hot_free=b.hot[0].current_capacity, cold_free=b.cold[0].current_capacity,
                hot_stored=[x.name for x in b.hot[0].observations['stored']], cold_stored=[x.name for x in b.cold[0].observations['stored']],
                hot_slot=getattr(b.hot[0].observations['transfer'], 'name', None), cold_slot=getattr(b.cold[0].observations['transfer'], 'name', None),
                counter=b._data_left_to_transfer)


def _move_replay(direction):
    def run(m, ob):
        sizes = [0] if 'zero-size' in ob else [m.num('loc_data_left_to_transfer', 7) or 7, 7, 10]
        for size in sizes:
            env, b, o = _mk_buffer(m, size)
            src, dst = (b.hot[0], b.cold[0]) if direction == 'h2c' else (b.cold[0], b.hot[0])
            src.current_capacity -= size
            src.observations['stored'].append(o)
            if 'refused' in ob:
                dst.current_capacity = max(size - 1, 0) if size > 0 else 0
            before = _tier_state(b)
            gen = b.move_hot_to_cold(0) if direction == 'h2c' else b.move_cold_to_hot(0)
            trace = [before]
            bad = []
            rate = min(b.hot[0].max_ingest_data_rate, b.cold[0].max_data_rate)
            left = size
            result = None
            try:
                while True:
                    next(gen)
                    st = _tier_state(b)
                    prev = trace[-1]
                    d = min(rate, left)
                    if (st['hot_free'] + st['cold_free']) != (prev['hot_free'] + prev['cold_free']):
                        bad.append(f"step {len(trace)}: hot+cold free space changed from {prev['hot_free'] + prev['cold_free']} to {st['hot_free'] + st['cold_free']}")
                    moved = abs(st['hot_free'] - prev['hot_free'])
                    if moved != d:
                        bad.append(f"step {len(trace)}: moved {moved}, the slower of the two rates allows min({rate}, {left}) = {d}")
                    left -= d
                    trace.append(st)
                    if len(trace) > 200:
                        bad.append('move does not complete')
                        break
            except StopIteration as e:
                result = e.value
            except RuntimeError as e:
                bad.append(f"RuntimeError during the move: {e}")
            after = _tier_state(b)
            where = after['hot_stored'].count('obs') + after['cold_stored'].count('obs')
            if result is False or size <= 0:
                if result is False and after != before:
                    bad.append(f"refused move changed the state: before {before} after {after}")
                if size <= 0 and where != 1:
                    bad.append(f"zero-size observation is stored in {where} tiers after the move (slots: hot={after['hot_slot']}, cold={after['cold_slot']})")
            elif result is True and (where != 1 or after['hot_slot'] or after['cold_slot']):
                bad.append(f"after the move the observation is stored in {where} tier lists, slots hot={after['hot_slot']} cold={after['cold_slot']}")
            if bad:
                return dict(violated=True, direction=direction, size=size, hot_rate=b.hot[0].max_ingest_data_rate,
                            cold_rate=b.cold[0].max_data_rate, observed=bad[:4], before=before, after=after)
        return dict(violated=False, note='not reproduced with the model values')
    return run


BUILDERS['Buffer.move_hot_to_cold'] = _move_replay('h2c')
BUILDERS['Buffer.move_cold_to_hot'] = _move_replay('c2h')


# ---------------------------------------------------------------------------------------------------- delay model (C15)
def _delay_replay(m, ob):
    from topsim.core.delay import DelayModel
    D = DelayModel.DelayDegree
    bad = []
    for dist in ('normal', 'poisson', 'uniform'):
        for deg in (D.LOW, D.MID, D.HIGH, D.NONE):
            for prob in (0.0, 0.5, 1.0):
                for rt in (0, 1, 2, 7, 50):
                    for seed in (0, 3, 20):
                        try:
                            dm = DelayModel(prob, dist, deg, seed=seed)
                            a = dm.generate_delay(rt)
                            b = DelayModel(prob, dist, deg, seed=seed).generate_delay(rt)
                            import copy as _copy
                            for again in (dm.generate_delay(rt), dm.generate_delay(rt), _copy.copy(dm).generate_delay(rt)):
                                if again != a:
                                    bad.append(f"{dist}/{deg.name}/prob={prob}/runtime={rt}/seed={seed}: {a} then {again} for the same seed (repeated call on the same model)")
                                    break
                        except Exception as e:
                            bad.append(f"{dist}/{deg.name}/prob={prob}/runtime={rt}/seed={seed}: {type(e).__name__}: {e}")
                            continue
                        try:
                            # the planners give every task copy.copy(model): a (shallow) copy whose seed or degree is then
                            # changed must behave like a fresh model with those values
                            import copy as _copy
                            for seed2, deg2 in ((seed + 11, deg), (seed, D.HIGH if deg is not D.HIGH else D.LOW)):
                                cp = _copy.copy(dm)
                                cp.seed, cp.degree = seed2, deg2
                                fresh = DelayModel(prob, dist, deg2, seed=seed2)
                                x, y = cp.generate_delay(rt), fresh.generate_delay(rt)
                                if x != y:
                                    bad.append(f"{dist}/{deg.name}/prob={prob}/runtime={rt}/seed={seed}: a copy re-seeded to seed={seed2}, degree={deg2.name} "
                                               f"gives {x}, a fresh model with the same seed and arguments gives {y} (not the same seed and arguments -> same result)")
                                    break
                        except Exception as e:
                            bad.append(f"{dist}/{deg.name}/prob={prob}/runtime={rt}/seed={seed}: {type(e).__name__}: {e}")
                        if a < rt:
                            bad.append(f"{dist}/{deg.name}/prob={prob}/runtime={rt}/seed={seed}: shortened to {a}")
                        if a != b:
                            bad.append(f"{dist}/{deg.name}/prob={prob}/runtime={rt}/seed={seed}: {a} then {b} for the same seed")
                        if (deg is D.NONE or prob == 0 or rt == 0) and a != rt:
                            bad.append(f"{dist}/{deg.name}/prob={prob}/runtime={rt}/seed={seed}: {a} != runtime")
    import re as _re
    mm = _re.search(r':([A-Za-z]+Error):', ob)
    if mm:
        sel = [b for b in bad if mm.group(1) in b]
    elif 'deterministic' in ob:
        sel = [b for b in bad if 'same seed' in b and 'Error' not in b]
    elif 'shortens' in ob or 'not-below' in ob:
        sel = [b for b in bad if 'shortened' in b]
    else:
        sel = [b for b in bad if 'Error' not in b]
    return dict(violated=bool(sel), scope="3 distributions x 4 degrees x 3 probabilities x runtimes {0,1,2,7,50} x 3 seeds",
                failures=len(sel), observed=sel[:5])


BUILDERS['DelayModel._create_random_value_from_runtime'] = _delay_replay
BUILDERS['DelayModel.generate_delay'] = _delay_replay


# ---------------------------------------------------------------------------------------------------- bounded simulation monitor
def _simmon(m, ob):
    """fallback for undecided obligations: small real simulations with the property's oracles (bounded, labelled so)"""
    import re as _re
    import simmon
    mm = _re.search(r'property=(C\d\d)', ob)
    prop = mm.group(1) if mm else None
    res = simmon.explore({prop} if prop else None)
    if prop in ('C17', 'C03', 'C01', 'C04'):
        r2 = simmon.explore_static({prop})
        res = dict(runs=res['runs'] + r2['runs'], failures=res['failures'] + r2['failures'])
    fails = [f for f in res['failures'] if f[0] in (prop, 'RUN')]
    # recorded known findings of the bounded monitor: identified by property, scenario and the text of the failing oracle
    import json as _json, os as _os
    kf = _json.load(open(_os.path.join(_os.path.dirname(_os.path.dirname(_os.path.abspath(__file__))), 'known_findings.json')))
    bk = [b for b in kf.get('bounded_findings', []) if b['property'] == prop]
    known = [f for f in fails if any(f[1].startswith(b['scenario'] + '/') and b['contains'] in f[2] for b in bk)]
    fails = [f for f in fails if f not in known]
    return dict(violated=bool(fails), bounded=True, known_findings=sorted(set(f"{f[1].split('/')[0]}: {f[2]}" for f in known)),
                scope=f"{res['runs']} monitored simulations: {len(simmon.SCENARIOS)} observation plans x {len(simmon.WORKFLOWS)} workflow shapes x "
                      f"{{queue, batch}} on 4 heterogeneous machines",
                failures=len(fails), observed=[f"{f[1]}: {f[2]}" for f in fails[:5]])


BUILDERS['__simmon__'] = _simmon


# ---------------------------------------------------------------------------------------------------- Cluster (C01, C02, C09)
def _idx(m, label):
    v = m.d.get('probe!' + label)
    if isinstance(v, dict):
        return {int(k): x for k, x in v['at'].items()}
    return {}


def _cluster_check(cl):
    """the concrete pool invariant and counters (the same statements as contracts/cluster.py: pool_invariant, counter_invariant)"""
    res = cl._resources
    bad = []
    where = {}
    for pool in ('available', 'ingest', 'occupied'):
        for mm in res[pool]:
            where.setdefault(mm.id, []).append(pool)
    for ob, lst in res['idle'].items():
        for mm in lst:
            where.setdefault(mm.id, []).append(f"idle[{ob}]")
    for mm in cl.machines:
        if len(where.get(mm.id, [])) != 1:
            bad.append(f"machine {mm.id} is in {where.get(mm.id, [])}")
    for k in where:
        if k not in [mm.id for mm in cl.machines]:
            bad.append(f"{k} is in a pool but is not a machine of the cluster")
    u = cl._usage_data
    run = cl._tasks['running']
    if u['running_tasks'] != len(run):
        bad.append(f"running counter {u['running_tasks']} != {len(run)}")
    if u['available'] != len(cl.machines) - len(run):
        bad.append(f"available counter {u['available']} != machines {len(cl.machines)} - running {len(run)}")
    nfin = sum(1 for v in cl._tasks['finished'].values() if v)
    if u['finished_tasks'] != nfin:
        bad.append(f"finished counter {u['finished_tasks']} != {nfin}")
    return bad


def _cluster_snapshot(cl):
    res = cl._resources
    return dict(available=sorted(x.id for x in res['available']), ingest=sorted(x.id for x in res['ingest']),
                occupied=sorted(x.id for x in res['occupied']), idle={k: sorted(x.id for x in v) for k, v in res['idle'].items()},
                running=sorted(t.id for t in cl._tasks['running']), finished={t.id: v for t, v in cl._tasks['finished'].items()},
                usage=dict(cl._usage_data), provisioned=cl.num_provisioned_obs)


def _build_cluster(m):
    import shutil
    from topsim.core.config import Config
    from topsim.core.cluster import Cluster
    from topsim.core.task import Task, TaskStatus
    mach = sorted(_idx(m, 'self.machines.cnt'))
    pools = {p: _idx(m, f'self._resources.{p}.cnt') for p in ('available', 'ingest', 'occupied')}
    extra = set()
    for p in pools.values():
        extra |= set(p)
    idle_keys = sorted(_idx(m, 'self._resources.idle.keys'))
    vc = m.d.get('probe!self._resources.idle.vcnt')
    idle = {}
    if isinstance(vc, dict):
        for o, inner in vc['at'].items():
            if int(o) in idle_keys:
                idle[int(o)] = [int(i) for i, c in inner.items() for _ in range(int(c))]
                extra |= set(idle[int(o)])
    mach = sorted(set(mach) | extra) or [1, 2]
    d = _scratch()
    p, _ = _write_cfg(d, 'seconds', [{"name": "a", "start": 0, "duration": 2, "instrument_demand": 1, "data_product_rate": 1}],
                      machines={f"m{i}": {"flops": 2, "compute_bandwidth": 2} for i in mach})
    env = simple_env(int(m.num('now', 0)))
    cl = Cluster(env, Config(p))
    shutil.rmtree(d, ignore_errors=True)
    by = {int(mm.id[1:]): mm for mm in cl.machines}
    res = cl._resources
    for pool in ('available', 'ingest', 'occupied'):
        res[pool][:] = [by[i] for i, c in sorted(pools[pool].items()) for _ in range(int(c)) if i in by]
    for o in idle_keys:
        res['idle'][f"obs{o}"] = [by[i] for i in idle.get(o, []) if i in by]
    tasks = {}
    def task(i):
        if i not in tasks:
            tasks[i] = Task(f"t{i}", 0, 3, None, [], flops=2, task_data=0, io={})
        return tasks[i]
    for i, c in sorted(_idx(m, 'self._tasks.running.cnt').items()):
        for _ in range(int(c)):
            t = task(i)
            t.task_status = TaskStatus.RUNNING
            cl._tasks['running'].append(t)
    fv = _idx(m, 'self._tasks.finished.vals')
    for i in sorted(_idx(m, 'self._tasks.finished.keys')):
        cl._tasks['finished'][task(i)] = (str(fv.get(i)) == 'True')
    for k in ('available', 'running_tasks', 'finished_tasks', 'ingest'):
        cl._usage_data[k] = m.num(f'self._usage_data.{k}', cl._usage_data[k])
    cl.num_provisioned_obs = m.num('self.num_provisioned_obs', 0)
    return env, cl, by, task


def _cluster_replay(fn):
    def run(m, ob):
        import inspect
        env, cl, by, task = _build_cluster(m)
        pre_bad = _cluster_check(cl)
        if pre_bad:
            return dict(violated=False, note='the reconstructed pre-state does not satisfy the pool invariant (the model leaves parts of it '
                        'unspecified): not replayable', pre_state_problems=pre_bad[:3])
        f = getattr(cl, fn)
        sig = [p for p in inspect.signature(f).parameters if p != 'c']
        args = {}
        for p in sig:
            if p in ('machine',):
                i = int(m.num('machine', 0))
                args[p] = by.get(i) or type(next(iter(by.values())))(f"m{i}", 1, 1, 1, 1)
            elif p in ('task',):
                args[p] = task(int(m.num('task', 99)))
            elif p in ('observation', 'name'):
                args[p] = f"obs{int(m.num(p, 0))}"
            elif p == 'ingest':
                args[p] = m.boolean('ingest')
            elif p in ('size', 'demand', 'pipeline_demand', 'max_ingest_resources'):
                args[p] = int(m.num(p, 1))
            elif p == 'predecessor_allocations':
                args[p] = None
        before = _cluster_snapshot(cl)
        raised = None
        try:
            r = f(**args)
            if inspect.isgenerator(r):
                env.process(r)
                env.run(until=env.now + 1)
        except Exception as e:
            raised = f"{type(e).__name__}: {e}"
        after = _cluster_snapshot(cl)
        bad = _cluster_check(cl)
        if raised and after != before and 'unchanged' in ob:
            bad.append(f"the call was refused ({raised}) but changed the state")
        return dict(violated=bool(bad), function=fn, arguments={k: getattr(v, 'id', v) for k, v in args.items()}, raised=raised,
                    before=before, after=after, observed=bad[:4])
    return run


for _fn in ('provision_batch_resources', 'release_batch_resources', '_set_machine_occupied', '_set_machine_available', '_add_idle_resource',
            '_reset_idle_resources', '_update_available_resources', 'allocate_task_to_cluster', 'clean_up_ingest'):
    BUILDERS['Cluster.' + _fn] = _cluster_replay(_fn)


# ---------------------------------------------------------------------------------------------------- Scheduler._find_pred_allocations (C03)
@builder('Scheduler._find_pred_allocations')
def _fpa_replay(m, ob):
    """bounded native fallback (the function is pure in (task, machine, allocations)): every assignment of up to 4 predecessors to
    3 machines with distinct finish times; the result must list exactly the predecessors that ran on another machine"""
    import itertools
    from topsim.core.scheduler import Scheduler
    from topsim.core.task import Task
    from topsim.core.machine import Machine
    machines = [Machine(f'm{i}', 1, 1, 1, 1) for i in range(3)]
    bad = []
    n = 0
    for k in range(0, 5):
        for assign in itertools.product(range(3), repeat=k):
            for afts in ([tuple(range(1, k + 1)), tuple(range(k, 0, -1))] if k else [()]):
                preds = []
                allocations = {}
                for i in range(k):
                    p = Task(f'p{i}', 0, 0, None, [])
                    p.aft = afts[i]
                    preds.append(p)
                    allocations[p.id] = (p, machines[assign[i]])
                t = Task('t', 0, 0, None, [p.id for p in preds])
                n += 1
                try:
                    got = Scheduler._find_pred_allocations(None, t, machines[0], allocations)
                except Exception as e:
                    bad.append(f"preds on machines {assign}: {type(e).__name__}: {e}")
                    continue
                want = sorted(p.id for i, p in enumerate(preds) if assign[i] != 0)
                if sorted(getattr(x, 'id', x) for x in got) != want:
                    bad.append(f"task on m0, predecessors on machines {assign} finishing at {afts}: listed {sorted(getattr(x, 'id', x) for x in got)}, "
                               f"cross-machine predecessors are {want}")
    return dict(violated=bool(bad), bounded=True, scope=f"{n} cases: up to 4 predecessors x 3 machines x 2 finish orders", failures=len(bad), observed=bad[:5])


# ---------------------------------------------------------------------------------------------------- small-scope replays of queries (round 4)
# Each enumerates a small scope of the REAL function (objects made without their constructors' file I/O) and evaluates the clause of
# the property statement concretely.  Used (a) as the native replay of a violated obligation of that function - the verifier's
# countermodel says WHICH clause fails, the enumeration supplies an input of the real code that shows it - and (b) as the bounded
# fallback when the function is undecided.  Bounded: never counted as proved.
def _stub(cls, **kw):
    o = object.__new__(cls)
    o.__dict__.update(kw)
    return o


@builder('Observation.is_finished')
def _obs_is_finished(m, ob):
    import itertools
    from topsim.core.instrument import Observation, RunStatus
    bad, n = [], 0
    for est, ast, dur, now, tel, st in itertools.product((0, 2), (None, 0, 2, 5), (0, 1, 3), range(0, 10), (True, False),
                                                        (RunStatus.WAITING, RunStatus.RUNNING, RunStatus.FINISHED)):
        o = Observation('o', est, dur, 1, 'w.json', 1)
        o.ast, o.status = ast, st
        n += 1
        try:
            got = bool(o.is_finished(now, tel))
        except Exception as e:
            bad.append(f"est={est} ast={ast} duration={dur} now={now}: {type(e).__name__}: {e}")
            continue
        want = ast is not None and now >= ast + dur and tel and st is not RunStatus.FINISHED
        if got != want:
            bad.append(f"est={est} ast={ast} duration={dur} now={now} telescope_in_use={tel} status={st.name}: is_finished={got}, "
                       f"the statement gives {want} (finished exactly from actual start + duration on)")
    return dict(violated=bool(bad), bounded=True, scope=f"{n} cases", failures=len(bad), observed=bad[:5])


@builder('Observation.is_ready')
def _obs_is_ready(m, ob):
    import itertools
    from topsim.core.instrument import Observation, RunStatus
    bad, n = [], 0
    for est, dem, now, cap, st in itertools.product((0, 3), (0, 2, 5), range(0, 6), (0, 2, 4, 5), (RunStatus.WAITING, RunStatus.RUNNING, RunStatus.FINISHED)):
        o = Observation('o', est, 3, dem, 'w.json', 1)
        o.status = st
        n += 1
        got = bool(o.is_ready(now, cap))
        want = est <= now and dem <= cap and st is RunStatus.WAITING
        if got != want:
            bad.append(f"est={est} demand={dem} now={now} free arrays={cap} status={st.name}: is_ready={got}, the statement gives {want}")
    return dict(violated=bool(bad), bounded=True, scope=f"{n} cases", failures=len(bad), observed=bad[:5])


def _mk_tel(use, status, obs, total=8):
    from topsim.user.telescope import Telescope
    return _stub(Telescope, telescope_use=use, telescope_status=status, observations=obs, total_arrays=total, env=simple_env(0))


@builder('Telescope.finish_observation')
def _tel_finish(m, ob):
    import itertools
    from topsim.core.instrument import Observation, RunStatus
    bad, n = [], 0
    for use, dem in itertools.product(range(0, 7), range(0, 7)):
        if dem > use:
            continue
        t = _mk_tel(use, True, [])
        o = Observation('o', 0, 3, dem, 'w.json', 1)
        n += 1
        r = t.finish_observation(o)
        if t.telescope_use != use - dem:
            bad.append(f"arrays in use {use}, observation of {dem} finishes: {t.telescope_use} in use afterwards, expected {use - dem}")
        if bool(t.telescope_status) != (use - dem != 0):
            bad.append(f"arrays in use {use}, observation of {dem} finishes: telescope_status={t.telescope_status} with {t.telescope_use} arrays in use")
        if r is not RunStatus.FINISHED:
            bad.append(f"returned {r}")
    return dict(violated=bool(bad), bounded=True, scope=f"{n} cases", failures=len(bad), observed=bad[:5])


@builder('Telescope.begin_observation')
def _tel_begin(m, ob):
    import itertools
    from topsim.core.instrument import Observation, RunStatus
    bad, n = [], 0
    for use, dem, st in itertools.product(range(0, 7), range(0, 7), (True, False)):
        if use + dem > 8 or (use > 0 and not st):
            continue
        t = _mk_tel(use, st, [])
        o = Observation('o', 0, 3, dem, 'w.json', 1)
        n += 1
        r = t.begin_observation(o)
        if t.telescope_use != use + dem or not t.telescope_status or r is not RunStatus.RUNNING:
            bad.append(f"arrays in use {use}, observation of {dem} begins: use={t.telescope_use} status={t.telescope_status} returned {r}")
    return dict(violated=bool(bad), bounded=True, scope=f"{n} cases", failures=len(bad), observed=bad[:5])


@builder('Telescope.is_idle')
def _tel_idle(m, ob):
    import itertools
    from topsim.core.instrument import Observation, RunStatus
    S = (RunStatus.WAITING, RunStatus.RUNNING, RunStatus.FINISHED)
    bad, n = [], 0
    for k in range(0, 4):
        for sts in itertools.product(S, repeat=k):
            for use, status in itertools.product((0, 1, 3), (True, False)):
                obs = []
                for i, s in enumerate(sts):
                    o = Observation(f'o{i}', i, 3, 0 if i == 0 else 2, 'w.json', 1)
                    o.status = s
                    obs.append(o)
                t = _mk_tel(use, status, obs)
                n += 1
                got = bool(t.is_idle())
                want = all(s is RunStatus.FINISHED for s in sts) and not status and use == 0
                if got != want:
                    bad.append(f"observations {[s.name for s in sts]} (demands {[o.demand for o in obs]}), arrays in use {use}, telescope_status={status}: "
                               f"is_idle={got}, the statement gives {want}")
    return dict(violated=bool(bad), bounded=True, scope=f"{n} cases", failures=len(bad), observed=bad[:5])


class _Q:
    """an actor stub whose query answers a fixed value (and is a METHOD, so `x.is_idle` without the call is truthy as in Python)"""
    def __init__(self, v):
        self.v = v

    def is_idle(self):
        return self.v

    def is_empty(self):
        return self.v


@builder('Simulation.is_finished')
def _sim_finished(m, ob):
    import itertools
    from topsim.core.simulation import Simulation
    bad, n = [], 0
    for b, c, s, i in itertools.product((True, False), repeat=4):
        sim = _stub(Simulation, buffer=_Q(b), cluster=_Q(c), scheduler=_Q(s), instrument=_Q(i), env=simple_env(0), running=True)
        n += 1
        got = bool(sim.is_finished())
        want = b and c and s and i
        if got != want:
            bad.append(f"buffer empty={b}, cluster idle={c}, scheduler idle={s}, telescope idle={i}: is_finished={got}, the statement gives {want}")
    return dict(violated=bool(bad), bounded=True, scope=f"{n} cases", failures=len(bad), observed=bad[:5])


@builder('Buffer.is_empty')
def _buf_empty(m, ob):
    import itertools
    from topsim.core.buffer import Buffer, HotBuffer, ColdBuffer
    bad, n = [], 0
    caps = (10, 100, 5e11)
    for hc, cc in itertools.product(caps, caps):
        for hd, cd in itertools.product((0, 1, 7, 300), (0, 1, 7, 250)):
            if hd > hc or cd > cc:
                continue
            hot = _stub(HotBuffer, total_capacity=hc, current_capacity=hc - hd)
            cold = _stub(ColdBuffer, total_capacity=cc, current_capacity=cc - cd)
            b = _stub(Buffer, hot={0: hot}, cold={0: cold}, env=simple_env(0))
            n += 1
            got = bool(b.is_empty())
            want = hd == 0 and cd == 0
            if got != want:
                bad.append(f"hot holds {hd} of {hc}, cold holds {cd} of {cc}: is_empty={got}, the statement gives {want}")
    return dict(violated=bool(bad), bounded=True, scope=f"{n} cases", failures=len(bad), observed=bad[:5])


def _transfer_replay(cls_name):
    def run(m, ob):
        import itertools
        import topsim.core.buffer as B
        from topsim.core.instrument import Observation
        cls = getattr(B, cls_name)
        bad, n = [], 0
        for rate, resid, held in itertools.product((1, 2, 3, 5, 8), range(1, 15), (0, 4)):
            o = Observation('o', 0, 3, 1, 'w.json', 1)
            o.total_data_size = resid
            cap0 = 50
            buf = _stub(cls, total_capacity=100, current_capacity=cap0, observations={'stored': [], 'transfer': o, 'scheduled': []},
                        max_ingest_data_rate=rate, max_data_rate=rate, env=simple_env(0))
            n += 1
            try:
                left = buf.transfer_observation(o, rate, resid)
            except Exception as e:
                bad.append(f"rate {rate}, residual {resid}: {type(e).__name__}: {e}")
                continue
            sent = min(rate, resid)
            if buf.current_capacity - cap0 != sent or left != resid - sent:
                bad.append(f"rate {rate}, residual {resid}: freed {buf.current_capacity - cap0} and reports {left} left; "
                           f"the statement gives min(rate, residual) = {sent} freed and {resid - sent} left")
            if (buf.observations['transfer'] is None) != (resid - sent == 0):
                bad.append(f"rate {rate}, residual {resid}: transfer slot {'cleared' if buf.observations['transfer'] is None else 'kept'} with {resid - sent} left")
        return dict(violated=bool(bad), bounded=True, scope=f"{n} cases", failures=len(bad), observed=bad[:5])
    return run


BUILDERS['HotBuffer.transfer_observation'] = _transfer_replay('HotBuffer')
BUILDERS['ColdBuffer.transfer_observation'] = _transfer_replay('ColdBuffer')


def _machine_replay(m, ob):
    """Machine.run / run_task / stop_task on ingest-like tasks (io a number): exactly one do_work started, capacities restored"""
    import itertools
    from topsim.core.machine import Machine, Status
    from topsim.core.task import Task, TaskStatus
    bad, n = [], 0
    for flops, data, io, cpu in itertools.product((0, 3), (0, 2), (0, 1), (5, 7)):
        env = simple_env(0)
        mc = Machine('m', cpu, 11, 13, 17)
        t = Task('t', 0, 0, None, None, flops, data, io, None)
        t.duration = 2
        t.task_status = TaskStatus.SCHEDULED
        started = []
        real = t.do_work

        def do_work(env_, machine, preds=None, _real=real, _started=started):
            _started.append(machine)
            return _real(env_, machine, preds)
        t.do_work = do_work
        n += 1
        try:
            ret = mc.run(t, env, None)
        except Exception as e:
            bad.append(f"flops={flops} data={data} io={io}: {type(e).__name__}: {e}")
            continue
        if len(started) != 1 or started[0] is not mc:
            bad.append(f"flops={flops} data={data} io={io}: {len(started)} executions started by one Machine.run")
        if (mc.cpu, mc.memory, mc.disk) != (cpu, 11, 13) or mc.status is not Status.IDLE or mc.current_task is not None:
            bad.append(f"flops={flops} data={data} io={io}: machine left with cpu={mc.cpu} memory={mc.memory} disk={mc.disk} status={mc.status}")
        if not hasattr(ret, 'triggered'):
            bad.append(f"flops={flops} data={data} io={io}: Machine.run returned {ret!r}, not the process it started")
    return dict(violated=bool(bad), bounded=True, scope=f"{n} cases", failures=len(bad), observed=bad[:5])


for _fn in ('run', 'run_task', 'stop_task'):
    BUILDERS['Machine.' + _fn] = _machine_replay


class _FakeCluster:
    """what BatchProcessing._max_resource_provision reads of a cluster: len(cluster) and get_available_resources()"""
    def __init__(self, total, avail):
        self.total, self.avail = total, avail

    def __len__(self):
        return self.total

    def get_available_resources(self):
        return list(range(self.avail))


@builder('BatchProcessing._max_resource_provision')
def _mrp_replay(m, ob):
    """the number of machines a batch reservation asks for: never more than are free; without a per-observation split
    min(free, floor(machines / partitions)); with one: nothing if fewer than its minimum are free, else min(free, its maximum)"""
    import itertools
    from topsim.user.schedule.batch_allocation import BatchProcessing
    bad, n = [], 0

    class P:
        id = 'obs'
    for total, parts in itertools.product(range(1, 9), (1, 2, 3)):
        for avail in range(0, total + 1):
            alg = BatchProcessing(max_resource_partitions=parts, min_resources_per_workflow=1)
            n += 1
            got = alg._max_resource_provision(_FakeCluster(total, avail), P())
            want = 0 if avail == 0 else min(avail, total // parts)
            if got != want:
                bad.append(f"{total} machines, {avail} free, {parts} partitions: asks for {got}, the statement gives {want}")
            for mn, mx in ((1, 2), (2, 4), (3, 3), (0, 5)):
                if mn > total:
                    continue
                alg = BatchProcessing(max_resource_partitions=parts, min_resources_per_workflow=1, resource_split={'obs': (mn, mx)})
                n += 1
                got = alg._max_resource_provision(_FakeCluster(total, avail), P())
                want = 0 if (avail == 0 or avail < mn) else min(avail, mx)
                if got != want:
                    bad.append(f"{total} machines, {avail} free, split (min {mn}, max {mx}): asks for {got}, the statement gives {want}")
    return dict(violated=bool(bad), bounded=True, scope=f"{n} cases", failures=len(bad), observed=bad[:5])


@builder('Cluster.is_idle')
def _cluster_idle(m, ob):
    import itertools
    from topsim.core.cluster import Cluster
    bad, n = [], 0
    for run, wait, occ, ing in itertools.product((0, 1, 2), (0, 1), (0, 1, 2), (0, 1, 2)):
        c = {'tasks': {'running': ['t'] * run, 'waiting': ['w'] * wait, 'finished': {}},
             'resources': {'occupied': ['m'] * occ, 'ingest': ['i'] * ing, 'available': [], 'idle': {}}}
        cl = _stub(Cluster, _clusters={'default': c}, env=simple_env(0))
        n += 1
        got = bool(cl.is_idle())
        want = run == 0 and wait == 0 and occ == 0 and ing == 0
        if got != want:
            bad.append(f"{run} running, {wait} waiting, {occ} occupied, {ing} on ingest: is_idle={got}, the statement gives {want}")
    return dict(violated=bool(bad), bounded=True, scope=f"{n} cases", failures=len(bad), observed=bad[:5])


@builder('Scheduler.is_idle')
def _sched_idle(m, ob):
    from topsim.core.scheduler import Scheduler
    bad, n = [], 0
    for q in range(0, 4):
        s = _stub(Scheduler, observation_queue=['o'] * q, env=simple_env(0))
        n += 1
        got = bool(s.is_idle())
        if got != (q == 0):
            bad.append(f"{q} observations queued: is_idle={got}, the statement gives {q == 0}")
    return dict(violated=bool(bad), bounded=True, scope=f"{n} cases", failures=len(bad), observed=bad[:5])
