"""Native replay of a verifier counterexample against the real code (run under /venv/bin/python, PYTHONPATH=/repo).
exit 10: the violation was reproduced on the real code; 0: not reproduced / no builder; 3: replayer error.
The replay file is updated in place with what was run and observed."""
import json
import os
import sys
import traceback

sys.path.insert(0, os.path.dirname(os.path.abspath(__file__)))
os.environ.setdefault('TQDM_DISABLE', '1')
import warnings
warnings.filterwarnings('ignore')


def main(path):
    d = json.load(open(path))
    import builders
    fn = d['function']
    b = builders.BUILDERS.get(fn)
    if b is None:
        d['replay_note'] = f"no native replay builder for {fn}; the verifier's model and output are attached"
        json.dump(d, open(path, 'w'), indent=1)
        print(d['replay_note'])
        return 0
    reproduced = False
    runs = []
    for ce in d['counterexamples']:
        model = ce.get('model') or {}
        try:
            r = b(builders.Model(model), d['obligation'])
        except Exception:
            r = dict(violated=False, error=traceback.format_exc())
        runs.append(r)
        if r.get('violated'):
            reproduced = True
            break
    d['replayed'] = reproduced
    d['replay_runs'] = runs
    json.dump(d, open(path, 'w'), indent=1, default=str)
    print(json.dumps(runs[-1], default=str)[:1500] if runs else 'no counterexample')
    return 10 if reproduced else 0


if __name__ == '__main__':
    try:
        sys.exit(main(sys.argv[1]))
    except SystemExit:
        raise
    except Exception:
        traceback.print_exc()
        sys.exit(3)
