#!/bin/sh
# tools/confirm_seed2.sh <prop> <src letter A/B> <stored letter C/D> (round 2): confirm a sub-agent's seeded change in a fresh scratch worktree of /repo HEAD,
# then store it under /verif/seeded/<prop>-<letter>/ (patch.diff, demo.py, NOTES.md, confirm.log). Removes the worktree.
prop=$1; l=$2; ol=$3; mutdir=${MUTDIR:-/tmp/mut}; src=$mutdir/$prop.out
wt=$mutdir/confirm_${prop}_$ol
git -C /repo worktree add --detach $wt HEAD >/dev/null 2>&1 || exit 9
out=/verif/seeded/$prop-$ol; mkdir -p $out
log=$out/confirm.log; : > $log
cd $wt
TQDM_DISABLE=1 /venv/bin/python $src/demo_$l.py >> $log 2>&1; r0=$?
echo "demo on unchanged tree: exit $r0" >> $log
if ! git apply $src/$l.diff 2>>$log; then echo "PATCH DOES NOT APPLY" | tee -a $log; cd /; git -C /repo worktree remove --force $wt; exit 8; fi
TQDM_DISABLE=1 /venv/bin/python $src/demo_$l.py >> $log 2>&1; r1=$?
echo "demo with change: exit $r1" >> $log
/venv/bin/python -m pytest -q -p no:cacheprovider --timeout=900 --continue-on-collection-errors 2>&1 | tail -1 >> $log
t=$(tail -1 $log)
cd /; git -C /repo worktree remove --force $wt
cp $src/$l.diff $out/patch.diff; cp $src/demo_$l.py $out/demo.py; cp $src/NOTES.md $out/NOTES.md 2>/dev/null
echo "$prop-$ol: pristine=$r0 changed=$r1 tests: $t"
