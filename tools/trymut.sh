#!/bin/sh
# tools/trymut.sh <patch> <property>...   apply a seeded change to /repo, run the checks, always undo it
p="$1"; shift
git -C /repo apply "$p" || { echo "PATCH DOES NOT APPLY"; exit 9; }
for prop in "$@"; do
  (cd /verif && PYVC_Z3_MS=${PYVC_Z3_MS:-8000} PYVC_CLI_S=${PYVC_CLI_S:-8} ./check $prop > /var/tmp/trymut.$$ 2>&1; rc=$?; cut -c1-330 /var/tmp/trymut.$$ | tail -${TAILN:-8}; echo "rc=$rc"; rm -f /var/tmp/trymut.$$)
done
git -C /repo checkout -- . 
