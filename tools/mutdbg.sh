#!/bin/sh
# tools/mutdbg.sh <patch> <command...> : run a command with TOPSIM_REPO pointing at a scratch clone with the patch applied
p="$1"; shift
[ -d /var/tmp/topsim-dbg/.git ] || git clone -q /repo /var/tmp/topsim-dbg
git -C /var/tmp/topsim-dbg checkout -q -- . ; git -C /var/tmp/topsim-dbg pull -q 2>/dev/null
git -C /var/tmp/topsim-dbg apply "$p" || { echo "PATCH DOES NOT APPLY"; exit 9; }
TOPSIM_REPO=/var/tmp/topsim-dbg PYTHONPATH=/var/tmp/topsim-dbg "$@"
rc=$?
git -C /var/tmp/topsim-dbg checkout -q -- .
exit $rc
