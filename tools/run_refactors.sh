#!/bin/sh
# harmless refactors: no check may print a VIOLATION line (exit 0 expected; 2 = undecided is tolerated and reported)
cd "$(dirname "$0")/.."
for r in tools/refactors/*.diff; do
  props=$(grep -o "topsim/[a-z_/]*\.py" $r | sort -u | sed 's#.*/##' | tr '\n' ' ')
  case "$props" in *cluster*) P="C02 C01";; *task*) P="C06 C03";; *buffer*) P="C18 C07";; *scheduler*) P="C19 C04";; *) P="C16";; esac
  for p in $P; do
    out=$(tools/mutdbg.sh /verif/$r ./check $p 2>&1); rc=$?
    echo "$(basename $r) $p rc=$rc $(echo "$out" | grep -c '^VIOLATION') violations; $(echo "$out" | grep -E '^(UNDECIDED|CHECKER)' | head -1 | cut -c1-140)"
  done
done
