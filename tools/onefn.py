#!/usr/bin/env python3-vt
"""tools/onefn.py <Class.function> ... : development aid - generate and discharge the obligations of single functions
(no property selection, no evidence written).  Run under python3-vt from /verif."""
import sys, os, multiprocessing as mp
sys.path.insert(0, os.path.dirname(os.path.dirname(os.path.abspath(__file__))))
from pyvc import runner, solve


def main(quals):
    rc = 0
    for q in quals:
        ctx = mp.get_context('fork')
        with ctx.Pool(1, maxtasksperchild=1) as pool:
            rep = pool.map(runner.gen_function, [(q,)])[0]
        print(q, rep['status'], rep['reason'] if rep['status'] != 'ok' else '', 'paths', rep['paths'], rep['outcomes'],
              'obligations', len(rep['obligations']), 'callees', rep['callees'])
        jobs = [(i, o['smt2'], 'cover' if o['kind'] == 'cover' else 'quick', 'reach' if o.get('const_false') else o.get('ground'))
                for i, o in enumerate(rep['obligations']) if not o['trivial']]
        with ctx.Pool(14) as pool:
            res = pool.map(solve.solve_one, jobs, chunksize=1)
        for idx, verdict, solver, dt, model, log in res:
            o = rep['obligations'][idx]
            good = (verdict == 'sat') if o['kind'] == 'cover' else (verdict == 'unsat')
            if not good:
                rc = 1
                print('   ', verdict, solver, round(dt, 1), o['name'], 'path', o['path'], o['where'])
    return rc


if __name__ == '__main__':
    sys.exit(main(sys.argv[1:]))
