#!/bin/sh
# every claimed check on the unchanged tree; prints one line per property
cd "$(dirname "$0")/.."
for p in $(python3 -c "import json;print(' '.join(c['property_id'] for c in json.load(open('MANIFEST.json'))['checks']))"); do
  ./check $p "$@" > /var/tmp/regress.$$ 2>&1; rc=$?
  echo "rc=$rc $(tail -1 /var/tmp/regress.$$ | cut -c1-160)"
  grep -E "^(VIOLATION|UNDECIDED|CHECKER-ERROR)" /var/tmp/regress.$$ | cut -c1-220 | head -4
done
rm -f /var/tmp/regress.$$
