#!/usr/bin/env python3
"""Run every stored seeded change against the check of its property, on a private scratch clone of /repo
(TOPSIM_REPO), never touching /repo itself. Writes tools/sweep_result.json (a list of records)."""
import json, os, shutil, subprocess, sys, time
HERE = os.path.dirname(os.path.dirname(os.path.abspath(__file__)))
scratch = os.environ.get('SWEEP_SCRATCH', '/var/tmp/topsim-sweep.%d' % os.getpid())
only = sys.argv[1:]
if os.path.exists(scratch):
    shutil.rmtree(scratch)
subprocess.run(['git', 'clone', '-q', '/repo', scratch], check=True)
env = dict(os.environ, TOPSIM_REPO=scratch, PYVC_Z3_MS=os.environ.get('PYVC_Z3_MS', '8000'), PYVC_CLI_S=os.environ.get('PYVC_CLI_S', '8'))
out = []
seeds = sorted(os.listdir(os.path.join(HERE, 'seeded')))
for sd in seeds:
    if only and sd not in only and sd.split('-')[0] not in only:
        continue
    d = os.path.join(HERE, 'seeded', sd)
    patch = os.path.join(d, 'rebased.diff') if os.path.exists(os.path.join(d, 'rebased.diff')) else os.path.join(d, 'patch.diff')
    prop = sd.split('-')[0]
    meta = json.load(open(os.path.join(d, 'meta.json')))
    props = [prop] + [p for p in meta.get('also_check', []) if p != prop]
    r = subprocess.run(['git', '-C', scratch, 'apply', patch], capture_output=True, text=True)
    rec = dict(seed=sd, patch=os.path.basename(patch), applies=r.returncode == 0, results={})
    if r.returncode == 0:
        for p in props:
            t0 = time.time()
            rr = subprocess.run([os.path.join(HERE, 'check'), p], capture_output=True, text=True, env=env, cwd=HERE)
            lines = [l for l in rr.stdout.splitlines() if l.startswith(('VIOLATION', 'UNDECIDED', 'CHECKER-ERROR'))]
            rec['results'][p] = dict(rc=rr.returncode, seconds=round(time.time() - t0, 1), lines=[l[:300] for l in lines[:6]])
        subprocess.run(['git', '-C', scratch, 'checkout', '--', '.'], check=True)
        subprocess.run(['git', '-C', scratch, 'clean', '-fdq'], check=True)
    else:
        rec['error'] = r.stderr.strip()[:300]
    print(json.dumps(rec)[:600], flush=True)
    out.append(rec)
    json.dump(out, open(os.path.join(HERE, 'tools', 'sweep_result.json'), 'w'), indent=1)
shutil.rmtree(scratch, ignore_errors=True)
