#!/usr/bin/env python3
"""Regenerates MANIFEST.json from the table below (keeps it schema-valid at all times)."""
import json, os
HERE = os.path.dirname(os.path.dirname(os.path.abspath(__file__)))
props = [json.loads(l) for l in open(os.path.join(HERE, 'properties.jsonl'))]
TECH = "contract-based deductive verification: VCs generated from /repo's Python AST by pyvc (sidecar contracts, loop/yield invariants), discharged by z3 5.1 / cvc5 / z3 4.8"
CLAIMED = {
 'C06': dict(text="Proof: every obligation generated from the current source of Task.calculate_runtime, Task._calc_task_delay and the three segments of Task.do_work (runtime formula, finish - start = max(1, runtime + delay), delay only lengthens, frames) is discharged by an SMT solver for all demands, speeds and delay outputs.",
             note="Assumes: float arithmetic is exact real arithmetic; SimPy resumes a process exactly `delay` after a timeout (S2); DelayModel.generate_delay's contract (result >= runtime) is proved separately under C15's assumptions on numpy.", ref="9/C06"),
}
CLAIMED.update({
 'C16': dict(text="Proof: the three timestep-multiplier ladders of Config.parse_cluster_config / parse_instrument_config / parse_buffer_config are proved equal to one spec function mult(unit); every scaled quantity (machine speed and bandwidth, system bandwidth, observation start, duration, rate, buffer rate limits) and every unscaled one (capacities, demands, counts) is a discharged loop-body or post obligation; parsing leaves the configuration unchanged (frame); three arithmetic lemmas give unit independence of volumes, rate comparisons and runtimes.",
             note="Assumes: Config.__init__ (file I/O, JSON parse) is trusted; JSON objects are modelled as heap entities; the 'whole multiples' quantifier makes round() exact; real arithmetic.", ref="9/C16"),
 'C18': dict(text="Proof: exact contracts of the four tier-step methods, has_capacity_for and observation_for_transfer, and segment-wise contracts of Buffer.move_hot_to_cold / move_cold_to_hot: per-step conservation, rate = min of the two tiers' rates, residual strictly decreasing, stored in the destination exactly when the residual reaches 0, refused move = state unchanged; ceil(size/rate) step count is an SMT lemma.",
             note="Assumes: no second move is in progress on the same tiers (transfer slots empty on entry); summing the per-step deltas over the steps of one move (telescoping) is a meta-step; real arithmetic. Two known findings (zero-size observation) are listed in known_findings.json.", ref="9/C18"),
})
NA = {'C05': "termination/liveness of the whole event system within a time bound: no contract within reach can decide it (DESIGN.md section 14)"}
checks, na = [], []
for p in props:
    i = p['id']
    if i in CLAIMED:
        c = CLAIMED[i]
        checks.append(dict(property_id=i, quick_cmd=f"./check {i} --tier quick", thorough_cmd=f"./check {i} --tier thorough",
                           evidence_file=f"/verif/evidence/{i}.json", replay_cmd_template="./check replay {path}", engine="pyvc",
                           level_claimed=dict(category="proof", text=c['text'], design_ref=c['ref']), level_note=c['note'], technique=TECH))
    else:
        na.append(dict(property_id=i, reason=NA.get(i, "check not built yet (work in progress)")))
m = dict(version=1, setup_cmd="./setup.sh",
         hooks=dict(guard="TOPSIM_VERIF", enable="no source hook is needed: contracts are sidecars under /verif/contracts and the verifier re-reads /repo/topsim on every run",
                    baseline_off_cmd="cd /repo && /venv/bin/python -m pytest -ra -q -p no:cacheprovider --timeout=900 --continue-on-collection-errors",
                    source_commits=[], add_only=True),
         engines=[dict(name="pyvc", path="/verif/pyvc", serves_properties=sorted(CLAIMED), kind_free_text="own verification-condition generator for a Python subset (symbolic execution of the real AST against sidecar contracts) + SMT back ends; native replay of counterexamples under /venv/bin/python")],
         checks=checks, notes="see DESIGN.md; known_findings.json lists recorded and fixed defects", not_applicable=na)
json.dump(m, open(os.path.join(HERE, 'MANIFEST.json'), 'w'), indent=1)
print('claimed', sorted(CLAIMED), 'na', len(na))
