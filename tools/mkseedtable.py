#!/usr/bin/env python3
"""tools/mkseedtable.py <sweep_result.json>... : writes the per-seed detection table into DESIGN.md (between the SEED-TABLE markers)
and fills `detected_by` in seeded/*/meta.json from the given sweep results (later files override earlier ones)."""
import json, os, re, sys
HERE = os.path.dirname(os.path.dirname(os.path.abspath(__file__)))
recs = {}
for f in sys.argv[1:]:
    for r in json.load(open(f)):
        recs[r['seed']] = r
rows = []
for sd in sorted(os.listdir(os.path.join(HERE, 'seeded'))):
    mp = os.path.join(HERE, 'seeded', sd, 'meta.json')
    if not os.path.exists(mp):
        continue
    meta = json.load(open(mp))
    r = recs.get(sd)
    if r is None:
        rows.append((sd, 'not run', '', ''))
        continue
    det, how = [], []
    for p, v in r['results'].items():
        obs = []
        for l in v['lines']:
            m = re.search(r'obligation=(\S+)', l)
            if l.startswith('VIOLATION') and m:
                o = m.group(1)
                kind = 'bounded run of the real code' if o.startswith(('bounded-simulations', 'bounded:')) else (
                    'obligation + failing run' if 'failing run of the real code' in l else 'obligation')
                obs.append((o[:110], kind))
        if v['rc'] == 1 and obs:
            det.append(p)
            how.append(f"{p}: `{obs[0][0]}` ({obs[0][1]}{', +%d more' % (len(obs) - 1) if len(obs) > 1 else ''})")
        elif v['rc'] == 2:
            how.append(f"{p}: undecided (exit 2), no violation reported")
        elif v['rc'] == 0:
            how.append(f"{p}: passes (exit 0)")
        else:
            how.append(f"{p}: exit {v['rc']}")
    meta['detected_by'] = dict(checks=det, detail=how, tier='quick') if det else dict(checks=[], detail=how, tier='quick')
    json.dump(meta, open(mp, 'w'), indent=1)
    rows.append((sd, 'yes' if det else 'NO', '; '.join(how), meta.get('needs', '')[:150]))
tab = ["| seed | detected | by | needs |", "|------|----------|----|-------|"]
for sd, d, how, needs in rows:
    tab.append(f"| {sd} | {d} | {how} | {needs.replace('|', '/')} |")
n_yes = sum(1 for r in rows if r[1] == 'yes')
tab.append("")
tab.append(f"{n_yes} of {len(rows)} seeded changes are reported as violations by the quick check of their own property.")
notes = json.load(open(os.path.join(HERE, 'tools', 'seed_notes.json'))) if os.path.exists(os.path.join(HERE, 'tools', 'seed_notes.json')) else {}
if notes:
    tab.append("")
    tab.append("Notes on individual seeds:")
    tab.append("")
    for k in sorted(notes):
        tab.append(f"* **{k}** — {notes[k]}")
dp = os.path.join(HERE, 'DESIGN.md')
s = open(dp).read()
block = "<!-- SEED-TABLE-BEGIN -->\n" + "\n".join(tab) + "\n<!-- SEED-TABLE-END -->"
if '<!-- SEED-TABLE-BEGIN -->' in s:
    s = re.sub(r'<!-- SEED-TABLE-BEGIN -->.*<!-- SEED-TABLE-END -->', lambda m: block, s, flags=re.S)
else:
    s = s.replace('SWEEP_TABLE_PLACEHOLDER', block)
open(dp, 'w').write(s)
print(n_yes, 'of', len(rows))
